#!/bin/sh
# Builds the framework from files on disk only (offline) and warms the build cache.
set -e
cd "$(dirname "$0")"
export GOFLAGS=-mod=mod GOPROXY=off GOSUMDB=off GOTOOLCHAIN=local
cp /repo/go.sum ./go.sum 2>/dev/null || true
mkdir -p bin evidence replays
go build -o bin/vcheck ./cmd/vcheck
go build -o bin/vinstr ./cmd/vinstr
./bin/vcheck prebuild
# conformance of the scheduler shims with the real Go primitives (informational: it uses short wall-clock waits)
./bin/vcheck shimconf || echo "shimconf reported mismatches - see output above (does not affect the checks)"
echo setup ok
