//go:build vrt

// C18 — pooled names are unique among concurrent holders.
// Stateless exploration of all interleavings (scheduling points at every
// sync.Pool / atomic operation of the instrumented namepool package, Pool.Get
// nondeterministic) of small closed scenarios.
package main

import (
	"fmt"
	"strings"

	"github.com/SAP/go-dblib/namepool"
	"github.com/SAP/go-dblib/vrt"
	"verif/hlib"
)

type Case struct {
	Format  string     `json:"format"`
	Threads [][]string `json:"threads"` // ops per thread: A (acquire), R (release newest held), RR (release the same pointer again), RN (release nil), RM (name.Release method), D (drop every reference to the names released so far: a finalizer may run from now on), D (drop every reference to the names released so far: a finalizer may run from now on)
	Bound   int        `json:"bound"`
	Choices []int      `json:"choices,omitempty"`
}

var h *hlib.H

type world struct {
	held    map[uint64]int // id -> holder thread
	heldTxt map[string]int
	reused  bool
	minted  map[uint64]bool
	viol    string
	det     string
}

func body(c Case, w *world) func() {
	return func() {
		*w = world{held: map[uint64]int{}, heldTxt: map[string]int{}, minted: map[uint64]bool{}}
		p := namepool.Pool(c.Format)
		fail := func(sig, det string) {
			if w.viol == "" {
				w.viol, w.det = sig, det
			}
		}
		released := map[uint64]bool{}
		for ti, ops := range c.Threads {
			ti, ops := ti, ops
			vrt.GoNamed(fmt.Sprintf("user%d", ti), func() {
				var mine []*namepool.Name
				var last *namepool.Name
				var dead []*namepool.Name // released, still referenced by this holder
				for _, op := range ops {
					switch op {
					case "A":
						n := p.Acquire()
						id := n.ID()
						txt := n.Name()
						if id == 0 {
							fail("C18|zero-id", fmt.Sprintf("thread %d acquired a name with id 0", ti))
						}
						want := fmt.Sprintf(c.Format, id)
						if txt != want || n.String() != want {
							fail("C18|text-mismatch", fmt.Sprintf("thread %d: name text %q, format applied to id %d gives %q", ti, txt, id, want))
						}
						if o, dup := w.held[id]; dup {
							fail("C18|duplicate-id", fmt.Sprintf("thread %d acquired id %d while thread %d still holds it", ti, id, o))
						}
						if o, dup := w.heldTxt[txt]; dup && strings.Contains(c.Format, "%") {
							fail("C18|duplicate-text", fmt.Sprintf("thread %d acquired text %q while thread %d still holds it", ti, txt, o))
						}
						if released[id] {
							w.reused = true
						}
						w.held[id] = ti
						w.heldTxt[txt] = ti
						mine = append(mine, n)
					case "R", "RM":
						if len(mine) == 0 {
							continue
						}
						n := mine[len(mine)-1]
						mine = mine[:len(mine)-1]
						id := n.ID()
						delete(w.held, id)
						delete(w.heldTxt, n.Name())
						released[id] = true
						last = n
						dead = append(dead, n)
						if op == "RM" {
							n.Release()
						} else {
							p.Release(n)
						}
						if n.Name() != "" {
							fail("C18|not-cleared", fmt.Sprintf("thread %d: released name still has text %q", ti, n.Name()))
						}
					case "RR":
						if last != nil {
							p.Release(last)
						}
					case "RN":
						p.Release(nil)
					case "D":
						for _, n := range dead {
							vrt.Unreachable(n)
						}
						dead, last = nil, nil
					}
				}
			})
		}
	}
}

func explore(c Case) {
	var w world
	outcomes := map[string]bool{}
	anyReuse := false
	cfg := vrt.ExploreCfg{Base: vrt.Config{Preempt: true, Races: true}, Bound: c.Bound, Deadline: h.Deadline(),
		Check: func(x *vrt.Exec) (string, string) {
			if x.Failure != nil {
				return "C18|" + x.Failure.Kind, x.Failure.String() + "\n" + x.Failure.Stack
			}
			if len(x.Races) > 0 {
				return "C18|data-race", strings.Join(x.Races, "; ")
			}
			if w.viol != "" {
				return w.viol, w.det
			}
			if w.reused {
				anyReuse = true
			}
			outcomes[fmt.Sprint(w.reused, len(w.held))] = true
			return "", ""
		},
		OnViolation: func(sig, det string, choices []int, x *vrt.Exec) {
			cc := c
			cc.Choices = choices
			h.Violate(sig, fmt.Sprintf("%s  [scenario %v format %q, schedule %v]", det, c.Threads, c.Format, choices), cc)
		}}
	st := vrt.Explore(cfg, body(c, &w))
	if st.Diverged != "" {
		h.Fatal("diverged: %s", st.Diverged)
	}
	if st.Capped != "" {
		h.Cap(fmt.Sprintf("scenario %v: %s after %d executions", c.Threads, st.Capped, st.Execs))
	}
	h.R.Extra["deviation_bound_3_threads"] = map[bool]string{true: "unbounded", false: "3"}[h.Thorough]
	h.EvalN(st.Execs, st.Execs)
	h.AddStates(st.Execs)
	h.AddTransitions(st.Steps)
	h.AddTraces(st.Execs)
	for o := range outcomes {
		h.Outcome(o)
	}
	// a released id must be obtainable again (existential over the pool's nondeterminism)
	canReuse := false
	for _, ops := range c.Threads {
		seenR := false
		for _, op := range ops {
			if op == "R" || op == "RM" {
				seenR = true
			}
			if op == "A" && seenR {
				canReuse = true
			}
		}
	}
	if canReuse && !anyReuse && st.Violations == 0 {
		h.Violate("C18|never-reused", fmt.Sprintf("scenario %v: in none of %d executions a released id was handed out again", c.Threads, st.Execs), c)
	}
}

func main() {
	h = hlib.Init("C18")
	var rc Case
	if h.ReplayCase(&rc) {
		var w world
		x, div := vrt.Replay(vrt.Config{Preempt: true, Races: true}, rc.Choices, body(rc, &w))
		if div != "" {
			h.Fatal("replay: %s", div)
		}
		if x.Failure != nil {
			h.Violate("C18|"+x.Failure.Kind, x.Failure.String(), rc)
		} else if len(x.Races) > 0 {
			h.Violate("C18|data-race", strings.Join(x.Races, "; "), rc)
		} else if w.viol != "" {
			h.Violate(w.viol, w.det, rc)
		}
		h.ReplayReport()
	}
	formats := []string{"", "%d", "n%d", "%s", "x%dy%d"}
	var scen [][][]string
	// 2 threads x up to 3 ops
	ops3 := [][]string{{"A"}, {"A", "R"}, {"A", "A"}, {"A", "R", "A"}, {"A", "R", "RR"}, {"A", "RM", "A"}, {"A", "A", "R"}, {"RN", "A", "R"}, {"A", "R", "RN"}}
	for _, a := range ops3 {
		for _, b := range ops3 {
			scen = append(scen, [][]string{a, b})
		}
	}
	// 3 threads x up to 2 ops
	ops2 := [][]string{{"A"}, {"A", "R"}, {"A", "A"}, {"A", "RM"}}
	for _, a := range ops2 {
		for _, b := range ops2 {
			for _, c := range ops2 {
				scen = append(scen, [][]string{a, b, c})
			}
		}
	}
	scen = append(scen, [][]string{{"A", "R", "A"}}, [][]string{{"A", "R", "RR", "A", "A"}})
	// garbage collection: the holder drops its released names, whatever a finalizer does then must not
	// hand an id to two holders
	scen = append(scen, [][]string{{"A", "R", "D", "A", "A"}}, [][]string{{"A", "R", "A", "D", "A", "A"}}, [][]string{{"A", "A", "R", "R", "D", "A", "A", "A"}},
		[][]string{{"A", "R", "D", "A"}, {"A", "A"}}, [][]string{{"A", "R", "D"}, {"A", "R", "A"}}, [][]string{{"A", "R", "RR", "D", "A"}, {"A", "A"}})
	// many simultaneous holders: ids far beyond the handful the small scenarios reach
	rep := func(op string, n int) []string {
		out := make([]string, n)
		for i := range out {
			out[i] = op
		}
		return out
	}
	long := [][][]string{
		{rep("A", 300)},
		{rep("A", 70), rep("A", 70)},
		{append(append(rep("A", 70), rep("R", 70)...), rep("A", 70)...)},
		{append(rep("A", 66), "R", "RR", "A", "A"), {"A", "R", "A"}},
	}
	// long scenarios first: a deadline (thorough tier) must not starve them
	nLong := len(long)
	scen = append(long, scen...)
	idx := 0
	for si, sc := range scen {
		for fi, f := range formats {
			if (si+fi)%len(formats) != 0 && !h.Thorough && len(sc) > 1 {
				continue // quick: one format per scenario, rotating; thorough: all
			}
			idx++
			if !h.Mine(idx) {
				continue
			}
			if h.Expired("scenario list cut short") {
				break
			}
			c := Case{Format: f, Threads: sc, Bound: -1}
			if len(sc) >= 3 && !h.Thorough {
				c.Bound = 3 // quick: at most 3 deviations from the default schedule for 3-thread scenarios
			}
			if si < nLong {
				c.Bound = 1 // long executions: the default schedule and every single deviation from it
				if h.Thorough && si != 2 {
					c.Bound = 2
				}
			}
			explore(c)
			h.Sample(func() interface{} { return c })
			h.Section("scenarios", 1)
		}
	}
	h.Done()
}
