//go:build vrt

// C13 — cancelled or closed channels never block and never deliver.
// Stateless model checking of the instrumented tds package: closed scenarios
// with 2-4 threads (callers, reader goroutine, scripted peer, virtual
// timers) explored under all schedules with a bounded number of deviations
// from the default schedule; deadlock = a call that cannot return.
package main

import (
	"context"
	"errors"
	"fmt"
	"regexp"
	"sort"
	"strings"
	"time"

	"github.com/SAP/go-dblib/tds"
	"github.com/SAP/go-dblib/vrt"
	"verif/harness/hx"
	"verif/hlib"
	"verif/ref/tdspkg"
)

type Case struct {
	Scenario string `json:"scenario"`
	N        int    `json:"n,omitempty"` // scenario parameter (queued packages, ...)
	M        int    `json:"m,omitempty"`
	Bound    int    `json:"bound"`
	Choices  []int  `json:"choices,omitempty"`
	// Cause: the contexts are cancelled WITH A CAUSE (context.WithCancelCause); the error a call returns must
	// still wrap the context's error (context.Canceled), whatever else it says
	Cause bool `json:"cause,omitempty"`
}

// withCancel is context.WithCancel, or WithCancelCause with an application-specific cause.
func withCancel(parent context.Context, cause bool) (context.Context, context.CancelFunc) {
	if !cause {
		return context.WithCancel(parent)
	}
	ctx, cancel := context.WithCancelCause(parent)
	return ctx, func() { cancel(errors.New("application is shutting down")) }
}

var h *hlib.H

type world struct {
	notes []string // violations noticed by harness threads
	facts map[string]string
}

func (w *world) bad(sig, det string) { w.notes = append(w.notes, sig+"\x00"+det) }

func done0() []byte     { return tdspkg.Done{Token: tdspkg.TokDone}.Encode() }
func rs(v int32) []byte { return tdspkg.ReturnStatus{Value: v}.Encode() }

func pkt(eom bool, body []byte) []byte {
	st := byte(0)
	if eom {
		st = hx.EOM
	}
	return hx.Packet(4, st, 0, 0, body)
}

func isClosedErr(err error) bool { return errors.Is(err, tds.ErrChannelClosed) }

// scenario bodies: run as thread 0
func body(c Case, w *world) func() {
	return func() {
		*w = world{facts: map[string]string{}}
		parent, cancelParent := withCancel(context.Background(), c.Cause)
		defer cancelParent()
		conn, pipe, err := hx.NewConn(parent, 2, 50)
		if err != nil {
			w.bad("C13|setup", err.Error())
			return
		}
		ch, err := conn.NewChannel()
		if err != nil {
			w.bad("C13|setup", err.Error())
			return
		}
		switch c.Scenario {
		case "T1-cancel-own-ctx", "T1-cancel-conn-ctx":
			// NextPackage(wait) vs cancel vs an arriving packet
			ctx, cancel := withCancel(context.Background(), c.Cause)
			defer cancel()
			vrt.GoNamed("canceller", func() {
				if c.Scenario == "T1-cancel-own-ctx" {
					cancel()
				} else {
					cancelParent()
				}
			})
			if c.N > 0 {
				vrt.GoNamed("peer", func() { pipe.PeerSend(pkt(c.N == 2, rs(7))) })
			}
			p, err := ch.NextPackage(ctx, true)
			switch {
			case err == nil:
				if _, ok := p.(*tds.ReturnStatusPackage); !ok {
					if _, ok := p.(*tds.DonePackage); !ok {
						w.bad("C13|T1|wrong-package", fmt.Sprintf("got %v", p))
					}
				}
				w.facts["result"] = "package"
			case errors.Is(err, context.Canceled):
				w.facts["result"] = "ctx-error"
			default:
				w.bad("C13|T1|other-error", fmt.Sprintf("NextPackage returned %v, want a queued package or an error wrapping the context's error", err))
			}
		case "T1-until-err-then-cancel", "T1-until-nil-then-cancel":
			// the callback fails (or is nil) on the first package of a response whose rest never arrives;
			// the library drains; the caller's context is then cancelled: the call must return
			ctx, cancel := context.WithCancel(context.Background())
			defer cancel()
			vrt.GoNamed("canceller", func() { cancel() })
			vrt.GoNamed("peer", func() { pipe.PeerSend(pkt(false, append(rs(1), rs(2)...))) })
			var cb func(tds.Package) (bool, error)
			if c.Scenario == "T1-until-err-then-cancel" {
				cb = func(p tds.Package) (bool, error) { return false, errors.New("callback failed") }
			}
			_, err := ch.NextPackageUntil(ctx, true, cb)
			if err == nil {
				w.bad("C13|T1|until-returned-nil", "NextPackageUntil returned no error although the response never ended and its context was cancelled")
			}
			w.facts["result"] = "returned"
		case "T2-send-cancelled":
			ctx, cancel := withCancel(context.Background(), c.Cause)
			cancel()
			before := len(pipe.Writes())
			err := ch.SendPackage(ctx, &tds.LanguagePackage{Cmd: strings.Repeat("q", c.N)})
			if err == nil || !errors.Is(err, context.Canceled) {
				w.bad("C13|T2|no-error", fmt.Sprintf("SendPackage with a cancelled context returned %v", err))
			}
			if n := len(pipe.Writes()) - before; n != 0 {
				w.bad("C13|T2|bytes-written", fmt.Sprintf("SendPackage with a cancelled context wrote %d packets", n))
			}
			err = ch.QueuePackage(ctx, &tds.LanguagePackage{Cmd: strings.Repeat("q", 600)})
			if n := len(pipe.Writes()) - before; n != 0 {
				w.bad("C13|T2|bytes-written", fmt.Sprintf("QueuePackage with a cancelled context wrote %d packets (err %v)", n, err))
			}
		case "T3-close-vs-next", "T3-close-vs-until", "T3-close-vs-send":
			// Close concurrent with a call on the same channel; the peer answers the logout
			vrt.GoNamed("peer", func() { answerLogout(pipe, c.N) })
			finished := false
			vrt.GoNamed("user", func() {
				ctx, cancel := vrt.WithTimeout(context.Background(), 10*time.Minute)
				defer cancel()
				var err error
				switch c.Scenario {
				case "T3-close-vs-next":
					_, err = ch.NextPackage(ctx, true)
				case "T3-close-vs-until":
					_, err = ch.NextPackageUntil(ctx, true, func(p tds.Package) (bool, error) { return false, nil })
				default:
					err = ch.SendPackage(ctx, &tds.LanguagePackage{Cmd: "select 1"})
				}
				finished = true
				w.facts["user"] = fmt.Sprint(err)
			})
			ch.Close()
			afterClose(ch, w)
			_ = finished
		case "T5-close-with-queued":
			// the peer sends N packages of a response (queue capacity 2), the consumer reads M of them and abandons the rest, then Close
			vrt.GoNamed("peer", func() {
				var body []byte
				for i := 0; i < c.N; i++ {
					body = append(body, rs(int32(i))...)
				}
				if len(body) > 0 {
					pipe.PeerSend(pkt(false, body))
				}
				answerLogout(pipe, 1)
			})
			ctx, cancel := vrt.WithTimeout(context.Background(), 10*time.Minute)
			for i := 0; i < c.M; i++ {
				if _, err := ch.NextPackage(ctx, true); err != nil {
					break
				}
			}
			cancel()
			vrt.Settle()
			ch.Close()
			afterClose(ch, w)
		case "T6-close-peer":
			// N: 0 peer never answers the logout, 1 answers, 2 answers after two virtual minutes
			vrt.GoNamed("peer", func() { answerLogout(pipe, c.N) })
			start := vrt.Now()
			ch.Close()
			if d := vrt.Now() - start; d > time.Minute {
				w.bad("C13|T6|close-took-too-long", fmt.Sprintf("Close returned after %v of virtual time", d))
			}
			afterClose(ch, w)
		case "T4-conn-close":
			// Conn.Close: channel closed, transport closed, reader ends
			vrt.GoNamed("peer", func() { answerLogout(pipe, c.N) })
			if c.M == 1 {
				// a transport failure has happened before
				pipe.PeerCloseWrite()
				vrt.Settle()
			}
			conn.Close()
			afterClose(ch, w)
			if !pipe.IsClosed() {
				w.bad("C13|T4|transport-not-closed", "Conn.Close returned, the transport is still open")
			}
			w.facts["conn-closed"] = "yes"
		case "T7-close-logical-channel", "T4-conn-close-logical":
			// logical channels (id > 0): the peer acknowledges set-up and tear-down with header-only PROTACK packets
			vrt.GoNamed("peer", func() { multiPeer(pipe, c.M) })
			var chans []*tds.Channel
			for i := 0; i < 1+c.N%2; i++ {
				lc, err := conn.NewChannel()
				if err != nil {
					w.bad("C13|setup", "NewChannel: "+err.Error())
					return
				}
				chans = append(chans, lc)
			}
			if c.Scenario == "T7-close-logical-channel" {
				lc := chans[0]
				ctx, cancel := context.WithCancel(context.Background())
				defer cancel()
				if c.N >= 2 {
					// another goroutine waits on the channel while it is closed; its context is cancelled afterwards
					vrt.GoNamed("user", func() {
						_, err := lc.NextPackage(ctx, true)
						w.facts["user"] = fmt.Sprint(err != nil)
					})
					vrt.GoNamed("canceller", func() { cancel() })
				}
				lc.Close()
				afterClose(lc, w)
				// the rest of the connection still works: channel 0 can be closed and the connection too
			}
			conn.Close()
			for _, lc := range chans {
				afterClose(lc, w)
			}
			afterClose(ch, w)
			if !pipe.IsClosed() {
				w.bad("C13|T4|transport-not-closed", "Conn.Close returned, the transport is still open")
			}
			w.facts["conn-closed"] = "yes"
		default:
			w.bad("C13|setup", "unknown scenario "+c.Scenario)
		}
	}
}

// multiPeer serves logical channels: PROTACK for set-up, for tear-down (ackClose: 0 never, 1 at once), logout answer.
func multiPeer(pipe *vrt.Pipe, ackClose int) {
	for {
		wr := pipe.PeerRecv()
		if wr == nil {
			return
		}
		if len(wr) < 8 {
			continue
		}
		channel := int(wr[4])<<8 | int(wr[5])
		switch {
		case wr[0] == 8: // set-up
			pipe.PeerSend(hx.Packet(11, hx.EOM, channel, 0, nil))
		case wr[0] == 9: // tear-down
			if ackClose == 1 {
				pipe.PeerSend(hx.Packet(11, hx.EOM, channel, 0, nil))
			}
		case len(wr) > 8 && wr[8] == tdspkg.TokLogout:
			pipe.PeerSend(hx.Packet(4, hx.EOM, channel, 0, done0()))
		}
	}
}

// answerLogout waits for the logout request and answers it (mode 1), answers
// it after two virtual minutes (2) or never (0).
func answerLogout(pipe *vrt.Pipe, mode int) {
	for {
		wr := pipe.PeerRecv()
		if wr == nil {
			return
		}
		if len(wr) > 8 && wr[8] == tdspkg.TokLogout {
			break
		}
	}
	switch mode {
	case 1:
		pipe.PeerSend(pkt(true, done0()))
	case 2:
		vrt.Sleep(2 * time.Minute)
		pipe.PeerSend(pkt(true, done0()))
	}
}

// afterClose: every call reports the closed condition and nothing is delivered.
func afterClose(ch *tds.Channel, w *world) {
	ctx := context.Background()
	if p, err := ch.NextPackage(ctx, false); !isClosedErr(err) {
		w.bad("C13|after-close|NextPackage", fmt.Sprintf("NextPackage on a closed channel returned (%v, %v), want the closed condition", p, err))
	}
	if p, err := ch.NextPackageUntil(ctx, false, nil); !isClosedErr(err) {
		w.bad("C13|after-close|NextPackageUntil", fmt.Sprintf("NextPackageUntil on a closed channel returned (%v, %v)", p, err))
	}
	if err := ch.SendPackage(ctx, &tds.LanguagePackage{Cmd: "x"}); !isClosedErr(err) {
		w.bad("C13|after-close|SendPackage", fmt.Sprintf("SendPackage on a closed channel returned %v", err))
	}
	if err := ch.QueuePackage(ctx, &tds.LanguagePackage{Cmd: "x"}); !isClosedErr(err) {
		w.bad("C13|after-close|QueuePackage", fmt.Sprintf("QueuePackage on a closed channel returned %v", err))
	}
	if err := ch.SendRemainingPackets(ctx); !isClosedErr(err) {
		w.bad("C13|after-close|SendRemainingPackets", fmt.Sprintf("SendRemainingPackets on a closed channel returned %v", err))
	}
}

var reThread = regexp.MustCompile(`T\d+\(([a-z0-9]*)\) at ([^;\]]+)`)

func blockedClass(f *vrt.Failure) string {
	var parts []string
	for _, b := range f.Blocked {
		m := reThread.FindStringSubmatch(b)
		if m == nil {
			continue
		}
		name := m[1]
		if name == "" {
			name = "reader"
		}
		op := m[2]
		if i := strings.Index(op, "("); i > 0 && strings.HasPrefix(op, "select") {
			op = "select"
		}
		parts = append(parts, name+"@"+strings.ReplaceAll(strings.TrimSpace(op), " ", "_"))
	}
	sort.Strings(parts)
	return strings.Join(parts, ",")
}

func verdict(c Case, w *world, x *vrt.Exec) (string, string) {
	if x.Failure != nil {
		switch x.Failure.Kind {
		case "deadlock", "livelock":
			cls := blockedClass(x.Failure)
			return "C13|" + c.Scenario + "|" + x.Failure.Kind + "|" + cls, "a call cannot return: " + x.Failure.String()
		default:
			return "C13|" + c.Scenario + "|" + x.Failure.Kind, x.Failure.String() + "\n" + x.Failure.Stack
		}
	}
	if len(x.Races) > 0 {
		return "C13|" + c.Scenario + "|data-race|" + raceClass(x.Races[0]), strings.Join(x.Races, "\n")
	}
	if len(w.notes) > 0 {
		p := strings.SplitN(w.notes[0], "\x00", 2)
		return p[0], p[1]
	}
	return "", ""
}

var rePos = regexp.MustCompile(`at (\S+:\d+ \S+)`)

func raceClass(r string) string {
	m := rePos.FindAllStringSubmatch(r, -1)
	var s []string
	for _, x := range m {
		f := strings.Fields(x[1])
		s = append(s, f[len(f)-1])
	}
	sort.Strings(s)
	if len(s) > 0 {
		return s[0]
	}
	return "?"
}

func explore(c Case) {
	var w world
	outcomes := map[string]bool{}
	st := vrt.Explore(vrt.ExploreCfg{Base: vrt.Config{Preempt: true, MaxSteps: 20000}, Bound: c.Bound, Deadline: h.Deadline(),
		Shard: h.R.Shard, NShards: h.R.NShards,
		Check: func(x *vrt.Exec) (string, string) {
			s, d := verdict(c, &w, x)
			if s == "" {
				var ks []string
				for k, v := range w.facts {
					ks = append(ks, k+"="+v)
				}
				sort.Strings(ks)
				outcomes[strings.Join(ks, ",")] = true
			}
			return s, d
		},
		OnViolation: func(sig, det string, choices []int, x *vrt.Exec) {
			cc := c
			cc.Choices = choices
			h.Violate(sig, fmt.Sprintf("scenario %s(n=%d,m=%d), schedule %v: %s", c.Scenario, c.N, c.M, choices, det), cc)
		}}, body(c, &w))
	if st.Diverged != "" {
		h.Fatal("scenario %s: %s", c.Scenario, st.Diverged)
	}
	if st.Capped != "" {
		h.Cap(fmt.Sprintf("scenario %s(n=%d,m=%d): %s after %d executions", c.Scenario, c.N, c.M, st.Capped, st.Execs))
	}
	h.EvalN(st.Execs, st.Execs)
	h.AddStates(st.Execs)
	h.AddTransitions(st.Steps)
	h.AddTraces(st.Execs)
	h.Section(c.Scenario, st.Execs)
	for o := range outcomes {
		h.Outcome(c.Scenario + ": " + o)
	}
}

func main() {
	h = hlib.Init("C13")
	var rc Case
	if h.ReplayCase(&rc) {
		var w world
		x, div := vrt.Replay(vrt.Config{Preempt: true, MaxSteps: 20000}, rc.Choices, body(rc, &w))
		if div != "" {
			h.Fatal("replay: %s", div)
		}
		if s, d := verdict(rc, &w, x); s != "" {
			h.Violate(s, d, rc)
		}
		h.ReplayReport()
	}
	bound := 2
	if h.Thorough {
		bound = 3
	}
	var cases []Case
	for n := 0; n <= 2; n++ {
		cases = append(cases, Case{Scenario: "T1-cancel-own-ctx", N: n}, Case{Scenario: "T1-cancel-conn-ctx", N: n})
	}
	cases = append(cases, Case{Scenario: "T1-until-err-then-cancel"}, Case{Scenario: "T1-until-nil-then-cancel"})
	for n := 0; n <= 1; n++ {
		cases = append(cases, Case{Scenario: "T1-cancel-own-ctx", N: n, Cause: true}, Case{Scenario: "T1-cancel-conn-ctx", N: n, Cause: true})
	}
	cases = append(cases, Case{Scenario: "T2-send-cancelled", N: 10, Cause: true})
	cases = append(cases, Case{Scenario: "T2-send-cancelled", N: 10}, Case{Scenario: "T2-send-cancelled", N: 1200})
	for _, s := range []string{"T3-close-vs-next", "T3-close-vs-until", "T3-close-vs-send"} {
		cases = append(cases, Case{Scenario: s, N: 1})
	}
	for n := 0; n <= 4; n++ {
		for m := 0; m <= n && m <= 2; m++ {
			cases = append(cases, Case{Scenario: "T5-close-with-queued", N: n, M: m})
		}
	}
	// long abandoned responses: far more packages pending in one packet than the queue holds
	for _, n := range []int{5, 6, 7, 8, 9, 10, 13} {
		for m := 0; m <= 1; m++ {
			cases = append(cases, Case{Scenario: "T5-close-with-queued", N: n, M: m})
		}
	}
	for n := 0; n <= 2; n++ {
		cases = append(cases, Case{Scenario: "T6-close-peer", N: n})
		cases = append(cases, Case{Scenario: "T4-conn-close", N: n})
	}
	cases = append(cases, Case{Scenario: "T4-conn-close", N: 1, M: 1})
	for n := 0; n <= 3; n++ {
		for m := 0; m <= 1; m++ {
			cases = append(cases, Case{Scenario: "T7-close-logical-channel", N: n, M: m})
		}
	}
	cases = append(cases, Case{Scenario: "T4-conn-close-logical", N: 0, M: 1}, Case{Scenario: "T4-conn-close-logical", N: 1, M: 1}, Case{Scenario: "T4-conn-close-logical", N: 1, M: 0})
	// every scenario is explored by all shards (level-1 subtrees are distributed inside vrt.Explore)
	for _, c := range cases {
		if h.Expired("scenario list cut short") {
			break
		}
		c.Bound = bound
		explore(c)
		h.Sample(func() interface{} { return c })
	}
	h.R.Extra["deviation_bound"] = bound
	h.Done()
}
