// C15 — the packet queue behaves as a byte FIFO across packet boundaries.
// Explicit-state BFS over operation sequences on the real tds.PacketQueue
// (successor = replay of the shortest path on a fresh queue + one op),
// compared step by step with a flat byte-slice model.
package main

import (
	"bytes"
	"crypto/sha1"
	"encoding/binary"
	"errors"
	"fmt"
	"reflect"
	"strings"
	"unsafe"

	"github.com/SAP/go-dblib/tds"
	"verif/hlib"
)

type Op struct {
	K   string `json:"k"`
	N   int    `json:"n,omitempty"`
	EOM bool   `json:"eom,omitempty"`
}

func (o Op) String() string {
	s := o.K
	if o.N != 0 || o.K == "B" || o.K == "W" || o.K == "A" {
		s += fmt.Sprint(o.N)
	}
	if o.EOM {
		s += "e"
	}
	return s
}

type Case struct {
	Usage string `json:"usage"` // rx | tx
	Size  int    `json:"size"`  // initial packet size
	Ops   []Op   `json:"ops"`
}

var h *hlib.H

var sizes = []int{9, 10, 12}

// ---- model ----

type mpkt struct {
	cap  int
	data []byte
}

type model struct {
	usage    string
	size     int // packet size in force
	stream   []byte
	cur      int
	poisoned bool
	tokOK    bool
	tok      int
	added    int // bytes ever produced (drives the byte pattern)
	pk       []mpkt
	// real-side saved position
	tp, td int
}

func (m *model) key() string {
	var sb strings.Builder
	fmt.Fprintf(&sb, "%s|%d|%x|%d|%v|%v|%d|%d|", m.usage, m.size, m.stream, m.cur, m.poisoned, m.tokOK, m.tok, m.added%256)
	for _, p := range m.pk {
		fmt.Fprintf(&sb, "%d:%x,", p.cap, p.data)
	}
	return sb.String()
}

func (m *model) gen(n int) []byte {
	bs := make([]byte, n)
	for i := range bs {
		m.added++
		bs[i] = byte(m.added%251 + 1)
	}
	return bs
}

// instance = real queue + model, built by replaying ops
type inst struct {
	q    *tds.PacketQueue
	m    *model
	viol string // first violation signature
	det  string
}

func (in *inst) fail(sig, det string) {
	if in.viol == "" {
		in.viol, in.det = sig, det
	}
}

func newInst(usage string, size int) *inst {
	in := &inst{m: &model{usage: usage, size: size}}
	in.q = tds.NewPacketQueue(func() int { return in.m.size })
	if usage == "rx" {
		in.m.tp, in.m.td = in.q.Position()
		in.m.tokOK, in.m.tok = true, 0
	}
	return in
}

func isNEB(err error) bool { return errors.Is(err, tds.ErrNotEnoughBytes) }

// readN performs a read of n bytes through the given accessor and checks it.
func (in *inst) checkRead(name string, n int, got []byte, err error) {
	m := in.m
	if m.cur+n <= len(m.stream) {
		want := m.stream[m.cur : m.cur+n]
		if err != nil {
			in.fail("C15|"+m.usage+"|"+name+"|error-although-available", fmt.Sprintf("%s(%d): %d bytes available, got error %v", name, n, len(m.stream)-m.cur, err))
		} else if !bytes.Equal(got, want) {
			in.fail("C15|"+m.usage+"|"+name+"|wrong-bytes", fmt.Sprintf("%s(%d) returned %x, model says %x", name, n, got, want))
		}
		m.cur += n
		return
	}
	if err == nil {
		in.fail("C15|"+m.usage+"|"+name+"|overread-no-error", fmt.Sprintf("%s(%d) with only %d bytes available returned %x and no error", name, n, len(m.stream)-m.cur, got))
	} else if !isNEB(err) {
		in.fail("C15|"+m.usage+"|"+name+"|overread-wrong-error", fmt.Sprintf("%s(%d) with only %d bytes available returned error %v (not ErrNotEnoughBytes)", name, n, len(m.stream)-m.cur, err))
	}
	m.poisoned = true
}

func le(bs []byte) uint64 {
	var b [8]byte
	copy(b[:], bs)
	return binary.LittleEndian.Uint64(b[:])
}

func (in *inst) mwrite(bs []byte) {
	m := in.m
	m.stream = append(m.stream, bs...)
	m.cur = len(m.stream)
	for len(bs) > 0 {
		if len(m.pk) == 0 || len(m.pk[len(m.pk)-1].data) == m.pk[len(m.pk)-1].cap {
			m.pk = append(m.pk, mpkt{cap: m.size - 8})
		}
		p := &m.pk[len(m.pk)-1]
		k := p.cap - len(p.data)
		if k > len(bs) {
			k = len(bs)
		}
		p.data = append(p.data, bs[:k]...)
		bs = bs[k:]
	}
}

// enabled tells whether op is part of the usage discipline in the current model state.
func (in *inst) enabled(o Op) bool {
	m := in.m
	if m.usage == "rx" {
		if m.poisoned {
			// after a failed read the position is undefined until restored or reset
			return (o.K == "SP" && m.tokOK) || o.K == "Z" || o.K == "A"
		}
		if o.K == "SP" {
			return m.tokOK
		}
		return true
	}
	return true
}

func (in *inst) apply(o Op) {
	q, m := in.q, in.m
	pan, msg := hlib.Catch(func() {
		switch o.K {
		case "A":
			data := m.gen(o.N)
			st := tds.PacketHeaderStatus(0)
			if o.EOM {
				st = tds.TDS_BUFSTAT_EOM
			}
			q.AddPacket(&tds.Packet{Header: tds.PacketHeader{MsgType: tds.TDS_BUF_RESPONSE, Status: st, Length: uint16(8 + o.N)}, Data: append([]byte{}, data...)})
			m.stream = append(m.stream, data...)
		case "B":
			got, err := q.Bytes(o.N)
			in.checkRead("Bytes", o.N, got, err)
			for i := range got { // what the caller does with the slice it was given must not reach the queue
				got[i] ^= 0xA5
			}
		case "Rd":
			buf := bytes.Repeat([]byte{0xEE}, o.N)
			n, err := q.Read(buf)
			avail := m.cur+o.N <= len(m.stream)
			if avail && err == nil && n != o.N {
				in.fail("C15|rx|Read|wrong-count", fmt.Sprintf("Read(buf[%d]) returned n=%d", o.N, n))
			}
			if avail && err == nil && !bytes.Equal(buf, m.stream[m.cur:m.cur+o.N]) {
				in.fail("C15|rx|Read|caller-buffer-not-filled", fmt.Sprintf("Read(buf[%d]) left the caller's buffer as %x, the stream bytes are %x", o.N, buf, m.stream[m.cur:m.cur+o.N]))
				m.cur += o.N
				return
			}
			in.checkRead("Read", o.N, buf, err)
		case "U8":
			v, err := q.Uint8()
			in.checkRead("Uint8", 1, []byte{v}, err)
		case "I8":
			v, err := q.Int8()
			in.checkRead("Int8", 1, []byte{byte(v)}, err)
		case "By":
			v, err := q.Byte()
			in.checkRead("Byte", 1, []byte{v}, err)
		case "U16":
			v, err := q.Uint16()
			b := make([]byte, 2)
			binary.LittleEndian.PutUint16(b, v)
			in.checkRead("Uint16", 2, b, err)
		case "I16":
			v, err := q.Int16()
			b := make([]byte, 2)
			binary.LittleEndian.PutUint16(b, uint16(v))
			in.checkRead("Int16", 2, b, err)
		case "U32":
			v, err := q.Uint32()
			b := make([]byte, 4)
			binary.LittleEndian.PutUint32(b, v)
			in.checkRead("Uint32", 4, b, err)
		case "I32":
			v, err := q.Int32()
			b := make([]byte, 4)
			binary.LittleEndian.PutUint32(b, uint32(v))
			in.checkRead("Int32", 4, b, err)
		case "U64":
			v, err := q.Uint64()
			b := make([]byte, 8)
			binary.LittleEndian.PutUint64(b, v)
			in.checkRead("Uint64", 8, b, err)
		case "I64":
			v, err := q.Int64()
			b := make([]byte, 8)
			binary.LittleEndian.PutUint64(b, uint64(v))
			in.checkRead("Int64", 8, b, err)
		case "S":
			v, err := q.String(o.N)
			in.checkRead("String", o.N, []byte(v), err)
		case "P":
			m.tp, m.td = q.Position()
			m.tokOK, m.tok = true, m.cur
		case "SP":
			q.SetPosition(m.tp, m.td)
			m.cur = m.tok
			m.poisoned = false
		case "D":
			q.DiscardUntilCurrentPosition()
			if m.usage == "rx" {
				m.stream = append([]byte{}, m.stream[m.cur:]...)
				m.cur = 0
				// positions saved before a discard refer to dropped packets
				m.tp, m.td = q.Position()
				m.tokOK, m.tok = true, 0
			} else {
				// transmit: completely filled packets have been sent and go away
				var keep []mpkt
				for _, p := range m.pk {
					if len(p.data) < p.cap {
						keep = append(keep, p)
					}
				}
				m.pk = keep
				m.stream = nil
				for _, p := range m.pk {
					m.stream = append(m.stream, p.data...)
				}
				m.cur = len(m.stream)
			}
		case "Z":
			q.Reset()
			m.stream, m.cur, m.poisoned, m.pk = nil, 0, false, nil
			m.tp, m.td = q.Position()
			m.tokOK, m.tok = m.usage == "rx", 0
		// ---- writes
		case "W":
			bs := m.gen(o.N)
			arg := append([]byte{}, bs...)
			if err := q.WriteBytes(arg); err != nil {
				in.fail("C15|tx|WriteBytes|error", err.Error())
			}
			for i := range arg { // the caller reuses its buffer (io.Writer: Write must not retain p)
				arg[i] ^= 0xA5
			}
			in.mwrite(bs)
		case "Wr":
			bs := m.gen(o.N)
			arg := append([]byte{}, bs...)
			n, err := q.Write(arg)
			if err != nil || n != o.N {
				in.fail("C15|tx|Write|error", fmt.Sprintf("n=%d err=%v", n, err))
			}
			for i := range arg {
				arg[i] ^= 0xA5
			}
			in.mwrite(bs)
		case "W8":
			bs := m.gen(1)
			q.WriteUint8(bs[0])
			in.mwrite(bs)
		case "Wi8":
			bs := m.gen(1)
			q.WriteInt8(int8(bs[0]))
			in.mwrite(bs)
		case "Wb":
			bs := m.gen(1)
			q.WriteByte(bs[0])
			in.mwrite(bs)
		case "W16":
			bs := m.gen(2)
			q.WriteUint16(binary.LittleEndian.Uint16(bs))
			in.mwrite(bs)
		case "Wi16":
			bs := m.gen(2)
			q.WriteInt16(int16(binary.LittleEndian.Uint16(bs)))
			in.mwrite(bs)
		case "W32":
			bs := m.gen(4)
			q.WriteUint32(binary.LittleEndian.Uint32(bs))
			in.mwrite(bs)
		case "Wi32":
			bs := m.gen(4)
			q.WriteInt32(int32(binary.LittleEndian.Uint32(bs)))
			in.mwrite(bs)
		case "W64":
			bs := m.gen(8)
			q.WriteUint64(binary.LittleEndian.Uint64(bs))
			in.mwrite(bs)
		case "Wi64":
			bs := m.gen(8)
			q.WriteInt64(int64(binary.LittleEndian.Uint64(bs)))
			in.mwrite(bs)
		case "WS":
			bs := m.gen(o.N)
			q.WriteString(string(bs))
			in.mwrite(bs)
		case "SZ":
			for i, s := range sizes {
				if s == m.size {
					m.size = sizes[(i+1)%len(sizes)]
					break
				}
			}
		default:
			panic("unknown op " + o.K)
		}
	})
	if pan {
		in.fail("C15|"+m.usage+"|"+o.K+"|panic", fmt.Sprintf("%s panicked: %s", o, msg))
	}
}

var pktSliceType = reflect.TypeOf([]*tds.Packet{})

// observe runs the non-destructive checks for a state on a freshly replayed instance.
func observe(c Case) (sig, det string) {
	in := build(c)
	if in.viol != "" {
		return in.viol, in.det
	}
	m := in.m
	if m.usage == "rx" {
		if m.poisoned {
			if !m.tokOK {
				return
			}
			in.apply(Op{K: "SP"})
		}
		// all unread bytes must be readable, and nothing more
		rem := len(m.stream) - m.cur
		if rem > 0 {
			got, err := in.q.Bytes(rem)
			if err != nil || !bytes.Equal(got, m.stream[m.cur:]) {
				return "C15|rx|drain|unread-bytes-lost-or-changed", fmt.Sprintf("after %v: reading the %d unread bytes gave %x err=%v, model says %x", c.Ops, rem, got, err, m.stream[m.cur:])
			}
		}
		_, err := in.q.Bytes(1)
		if err == nil || !isNEB(err) {
			return "C15|rx|drain|read-past-end", fmt.Sprintf("after %v and draining: Bytes(1) returned err=%v", c.Ops, err)
		}
		return
	}
	// tx: layout of the packets
	fs := hlib.FindFields(in.q, pktSliceType)
	if len(fs) == 0 {
		h.Fatal("no []*tds.Packet field in PacketQueue")
	}
	pk := fs[0].Interface().([]*tds.Packet)
	if len(fs) > 1 {
		// a tree that keeps further packet lists (a free list, say): the queue is the field of that name
		qv := reflect.ValueOf(in.q).Elem()
		if sf, ok := qv.Type().FieldByName("queue"); ok && sf.Type == pktSliceType {
			f := qv.FieldByName("queue")
			pk = reflect.NewAt(f.Type(), unsafe.Pointer(f.UnsafeAddr())).Elem().Interface().([]*tds.Packet)
		}
	}
	// trailing packets beyond the model are acceptable only if they are untouched and the model's last is full (lazy/eager opening both fine)
	if len(pk) < len(m.pk) {
		return "C15|tx|layout|packets-missing", fmt.Sprintf("after %v: queue holds %d packets, model %d", c.Ops, len(pk), len(m.pk))
	}
	for i, mp := range m.pk {
		p := pk[i]
		if len(p.Data) != mp.cap || int(p.Header.Length) != mp.cap+8 {
			return "C15|tx|layout|packet-size", fmt.Sprintf("after %v: packet %d has body %d / header length %d, packet size in force when it was opened gives body %d", c.Ops, i, len(p.Data), p.Header.Length, mp.cap)
		}
		if !bytes.Equal(p.Data[:len(mp.data)], mp.data) {
			return "C15|tx|layout|content", fmt.Sprintf("after %v: packet %d holds %x, model %x (a packet must be filled completely before the next is opened)", c.Ops, i, p.Data[:len(mp.data)], mp.data)
		}
	}
	if len(pk) > len(m.pk)+1 {
		return "C15|tx|layout|extra-packets", fmt.Sprintf("after %v: queue holds %d packets, model %d", c.Ops, len(pk), len(m.pk))
	}
	// write-then-rewind-then-read: everything written reads back
	in.q.SetPosition(0, 0)
	if len(m.stream) > 0 {
		got, err := in.q.Bytes(len(m.stream))
		if err != nil || !bytes.Equal(got, m.stream) {
			return "C15|tx|readback|differs", fmt.Sprintf("after %v: rewinding and reading %d bytes gave %x err=%v, written %x", c.Ops, len(m.stream), got, err, m.stream)
		}
	}
	return
}

func build(c Case) *inst {
	in := newInst(c.Usage, c.Size)
	for _, o := range c.Ops {
		if !in.enabled(o) {
			in.fail("harness", "disabled op in path")
			return in
		}
		in.apply(o)
		if in.viol != "" {
			return in
		}
	}
	return in
}

func alphabet(usage string, body int) []Op {
	var ops []Op
	seen := map[string]bool{}
	add := func(o Op) {
		if !seen[o.String()] {
			seen[o.String()] = true
			ops = append(ops, o)
		}
	}
	ns := []int{0, 1, 2, 3, body, body + 1, 2 * body, 2*body + 1, 3 * body}
	if usage == "rx" {
		for _, n := range ns {
			add(Op{K: "A", N: n})
			if n > 0 {
				add(Op{K: "A", N: n, EOM: true})
			}
		}
		for _, n := range []int{0, 1, 2, 3, 4, 5, 8, 3 * body} {
			add(Op{K: "B", N: n})
		}
		for _, k := range []string{"By", "U8", "I8", "U16", "I16", "U32", "I32", "U64", "I64"} {
			add(Op{K: k})
		}
		add(Op{K: "S", N: 3})
		add(Op{K: "Rd", N: 1})
		add(Op{K: "Rd", N: 3})
		add(Op{K: "P"})
		add(Op{K: "SP"})
		add(Op{K: "D"})
		add(Op{K: "Z"})
		return ops
	}
	for _, n := range ns {
		add(Op{K: "W", N: n})
	}
	add(Op{K: "Wr", N: 3})
	for _, k := range []string{"Wb", "W8", "Wi8", "W16", "Wi16", "W32", "Wi32", "W64", "Wi64"} {
		add(Op{K: k})
	}
	add(Op{K: "WS", N: 3})
	add(Op{K: "SZ"})
	add(Op{K: "D"})
	add(Op{K: "Z"})
	return ops
}

func report(sig, det string, c Case) {
	h.Violate(sig, det, c)
}

func bfs(usage string, size, depth int) {
	ops := alphabet(usage, size-8)
	root := Case{Usage: usage, Size: size}
	seen := map[[16]byte]bool{}
	hk := func(s string) (k [16]byte) {
		sum := sha1.Sum([]byte(s))
		copy(k[:], sum[:16])
		return
	}
	in := build(root)
	seen[hk(hlib.Dump(in.q, "sync.Mutex")+"#"+in.m.key())] = true
	h.State()
	// the frontier holds paths as op indices (one byte per operation)
	mk := func(path []byte) Case {
		c := Case{Usage: usage, Size: size, Ops: make([]Op, len(path))}
		for i, x := range path {
			c.Ops[i] = ops[x]
		}
		return c
	}
	frontier := [][]byte{{}}
	for d := 0; d < depth; d++ {
		var next [][]byte
		for _, path := range frontier {
			if h.Expired(fmt.Sprintf("BFS %s size %d stopped at depth %d", usage, size, d)) {
				return
			}
			base := build(mk(path))
			for oi, o := range ops {
				if !base.enabled(o) {
					continue
				}
				np := append(append(make([]byte, 0, len(path)+1), path...), byte(oi))
				nc := mk(np)
				in := build(nc)
				h.Transition()
				h.Eval(len(nc.Ops) >= 2)
				if in.viol != "" {
					report(in.viol, fmt.Sprintf("ops %v (packet size %d): %s", nc.Ops, size, in.det), nc)
					h.Outcome("violation")
					continue // do not expand a violating state
				}
				key := hk(hlib.Dump(in.q, "sync.Mutex") + "#" + in.m.key())
				if seen[key] {
					continue
				}
				seen[key] = true
				h.State()
				if sig, det := observe(nc); sig != "" {
					report(sig, fmt.Sprintf("(packet size %d) %s", size, det), nc)
					h.Outcome("violation")
					continue
				}
				if in.m.poisoned {
					h.Outcome("state-after-failed-read")
				} else {
					h.Outcome("state-ok")
				}
				h.Sample(func() interface{} { return nc })
				if d+1 < depth {
					next = append(next, np)
				}
			}
		}
		h.Section(fmt.Sprintf("%s-size%d-depth%d-frontier", usage, size, d+1), int64(len(next)))
		frontier = next
	}
}

func main() {
	h = hlib.Init("C15")
	var rc Case
	if h.ReplayCase(&rc) {
		in := build(rc)
		if in.viol != "" {
			report(in.viol, in.det, rc)
		} else if sig, det := observe(rc); sig != "" {
			report(sig, det, rc)
		}
		h.ReplayReport()
	}
	depthRx, depthTx := 4, 4
	if h.Thorough {
		depthRx, depthTx = 6, 6 // states are keyed by a 128-bit hash of the canonical dump
	}
	idx := 0
	for _, usage := range []string{"rx", "tx"} {
		for _, size := range sizes {
			if h.Mine(idx) {
				d := depthRx
				if usage == "tx" {
					d = depthTx
				}
				bfs(usage, size, d)
			}
			idx++
		}
	}
	h.Done()
}
