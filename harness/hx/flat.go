// Package hx holds helpers shared by the harnesses: a flat BytesChannel, an
// independent TDS packet (de)framer and the scripted-peer plumbing.
package hx

import (
	"encoding/binary"

	"github.com/SAP/go-dblib/tds"
)

// Flat is an independent tds.BytesChannel over a plain byte slice.
type Flat struct {
	Buf []byte
	Pos int
}

var _ tds.BytesChannel = (*Flat)(nil)

func (f *Flat) Position() (int, int)       { return 0, f.Pos }
func (f *Flat) SetPosition(_ int, d int)   { f.Pos = d }
func (f *Flat) DiscardUntilCurrentPosition() {}

func (f *Flat) Bytes(n int) ([]byte, error) {
	if n < 0 || f.Pos+n > len(f.Buf) {
		return make([]byte, 8), tds.ErrNotEnoughBytes
	}
	b := append([]byte{}, f.Buf[f.Pos:f.Pos+n]...)
	f.Pos += n
	return b, nil
}
func (f *Flat) Read(p []byte) (int, error) {
	b, err := f.Bytes(len(p))
	if err != nil {
		return 0, err
	}
	return copy(p, b), nil
}
func (f *Flat) WriteBytes(b []byte) error { f.Buf = append(f.Buf, b...); f.Pos = len(f.Buf); return nil }
func (f *Flat) Write(p []byte) (int, error) { return len(p), f.WriteBytes(p) }
func (f *Flat) Byte() (byte, error) {
	b, err := f.Bytes(1)
	return b[0], err
}
func (f *Flat) WriteByte(b byte) error { return f.WriteBytes([]byte{b}) }
func (f *Flat) Uint8() (uint8, error)  { return f.Byte() }
func (f *Flat) WriteUint8(v uint8) error { return f.WriteByte(v) }
func (f *Flat) Int8() (int8, error) {
	b, err := f.Byte()
	return int8(b), err
}
func (f *Flat) WriteInt8(v int8) error { return f.WriteByte(byte(v)) }
func (f *Flat) Uint16() (uint16, error) {
	b, err := f.Bytes(2)
	return binary.LittleEndian.Uint16(b), err
}
func (f *Flat) WriteUint16(v uint16) error {
	b := make([]byte, 2)
	binary.LittleEndian.PutUint16(b, v)
	return f.WriteBytes(b)
}
func (f *Flat) Int16() (int16, error) {
	v, err := f.Uint16()
	return int16(v), err
}
func (f *Flat) WriteInt16(v int16) error { return f.WriteUint16(uint16(v)) }
func (f *Flat) Uint32() (uint32, error) {
	b, err := f.Bytes(4)
	return binary.LittleEndian.Uint32(b), err
}
func (f *Flat) WriteUint32(v uint32) error {
	b := make([]byte, 4)
	binary.LittleEndian.PutUint32(b, v)
	return f.WriteBytes(b)
}
func (f *Flat) Int32() (int32, error) {
	v, err := f.Uint32()
	return int32(v), err
}
func (f *Flat) WriteInt32(v int32) error { return f.WriteUint32(uint32(v)) }
func (f *Flat) Uint64() (uint64, error) {
	b, err := f.Bytes(8)
	return binary.LittleEndian.Uint64(b), err
}
func (f *Flat) WriteUint64(v uint64) error {
	b := make([]byte, 8)
	binary.LittleEndian.PutUint64(b, v)
	return f.WriteBytes(b)
}
func (f *Flat) Int64() (int64, error) {
	v, err := f.Uint64()
	return int64(v), err
}
func (f *Flat) WriteInt64(v int64) error { return f.WriteUint64(uint64(v)) }
func (f *Flat) String(n int) (string, error) {
	b, err := f.Bytes(n)
	if err != nil {
		return "", err
	}
	return string(b), nil
}
func (f *Flat) WriteString(s string) error { return f.WriteBytes([]byte(s)) }

// Encode returns the encoding of pkg as written by its own WriteTo.
func Encode(pkg tds.Package) ([]byte, error) {
	f := &Flat{}
	if err := pkg.WriteTo(f); err != nil {
		return nil, err
	}
	return f.Buf, nil
}
