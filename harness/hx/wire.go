package hx

import (
	"encoding/binary"
	"fmt"
)

// Pkt is a TDS packet as seen by the independent (de)framer.
type Pkt struct {
	Type     byte
	Status   byte
	Length   int
	Channel  int
	PacketNr int
	Window   int
	Body     []byte
}

const EOM = 0x01

// ParseStream splits a byte stream into consecutive TDS packets.
func ParseStream(b []byte) ([]Pkt, error) {
	var out []Pkt
	for off := 0; off < len(b); {
		if len(b)-off < 8 {
			return out, fmt.Errorf("trailing %d bytes at offset %d are shorter than a packet header", len(b)-off, off)
		}
		l := int(binary.BigEndian.Uint16(b[off+2:]))
		if l < 8 {
			return out, fmt.Errorf("packet at offset %d declares length %d < 8", off, l)
		}
		if off+l > len(b) {
			return out, fmt.Errorf("packet at offset %d declares length %d but only %d bytes follow", off, l, len(b)-off)
		}
		out = append(out, Pkt{Type: b[off], Status: b[off+1], Length: l, Channel: int(binary.BigEndian.Uint16(b[off+4:])), PacketNr: int(b[off+6]), Window: int(b[off+7]), Body: b[off+8 : off+l]})
		off += l
	}
	return out, nil
}

// Packet builds one packet.
func Packet(typ, status byte, channel int, nr int, body []byte) []byte {
	b := make([]byte, 8+len(body))
	b[0], b[1] = typ, status
	binary.BigEndian.PutUint16(b[2:], uint16(8+len(body)))
	binary.BigEndian.PutUint16(b[4:], uint16(channel))
	b[6] = byte(nr)
	copy(b[8:], body)
	return b
}

// Packetise cuts body at the given offsets (strictly increasing, inside the
// body) into packets of type typ on channel; the last one carries EOM.
func Packetise(typ byte, channel int, body []byte, cuts []int) [][]byte {
	var out [][]byte
	prev := 0
	nr := 0
	for _, c := range cuts {
		out = append(out, Packet(typ, 0, channel, nr, body[prev:c]))
		prev = c
		nr++
	}
	out = append(out, Packet(typ, EOM, channel, nr, body[prev:]))
	return out
}

// Concat joins byte slices.
func Concat(bs ...[]byte) []byte {
	var out []byte
	for _, b := range bs {
		out = append(out, b...)
	}
	return out
}
