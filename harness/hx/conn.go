//go:build vrt

package hx

import (
	"context"
	"fmt"

	"github.com/SAP/go-dblib/tds"
	"github.com/SAP/go-dblib/vrt"
)

var connSeq int

// NewConn opens a tds.Conn over a fresh in-memory transport.
func NewConn(ctx context.Context, queueSize, readTimeout int) (*tds.Conn, *vrt.Pipe, error) {
	connSeq++
	host, port := fmt.Sprintf("h%d", connSeq), "5000"
	p := vrt.NewPipe(host + ":" + port)
	info := &tds.Info{}
	info.Host, info.Port = host, port
	info.Network = "tcp"
	info.ClientHostname = "client"
	info.PacketReadTimeout = readTimeout
	info.ChannelPackageQueueSize = queueSize
	info.Username, info.Password = "user", "secret"
	c, err := tds.NewConn(ctx, info)
	return c, p, err
}
