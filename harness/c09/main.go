//go:build vrt

// C09 — passwords never cross the wire in clear when encryption is negotiated.
// Complete enumeration of a password / name / nonce / key / remote-server
// grid over the real Channel.Login against a scripted peer; oracle: EVERY
// byte the client wrote is accounted for by independent decoders (login
// record, capability package, message/format/parameter packages), every
// ciphertext decrypts under the server's private key (RSA-OAEP/SHA-1) to
// nonce || secret, the session key is 32 bytes drawn from the random source.
// The plain flow is the control: there the password must be in its slot.
// The login record part also serves C06 (oversized fields rejected).
package main

import (
	"bytes"
	"crypto/rsa"
	"crypto/sha1"
	"encoding/binary"
	"encoding/json"
	"fmt"
	"strings"
	"time"

	"verif/harness/hx"
	"verif/harness/lg"
	"verif/hlib"
	"verif/ref/loginrec"
	"verif/ref/tdspkg"
)

type Case struct {
	Encrypt  bool        `json:"encrypt"`
	KeyBits  int         `json:"keybits"`
	Nonce    int         `json:"nonce"`
	Password string      `json:"password"`
	User     string      `json:"user"`
	Host     string      `json:"host"`
	App      string      `json:"app"`
	Remotes  [][2]string `json:"remotes,omitempty"`
	Size     int         `json:"size,omitempty"`  // packet size announced in the first reply (0: none)
	Fail     string      `json:"fail,omitempty"`  // make the login fail: "", "loginack-fail", "stall", "bad-key"
	Reuse    string      `json:"reuse,omitempty"` // "plain" | "encrypted": the same LoginConfig object was used for such a login before
	OldPw    string      `json:"oldpw,omitempty"` // with Reuse: that earlier login used this account password, the caller changed it on the config since
}

var h *hlib.H

func nonce(n int) []byte {
	b := make([]byte, n)
	for i := range b {
		b[i] = byte(0xA0 + i)
	}
	return b
}

type rdr struct {
	b   []byte
	off int
	err error
}

func (r *rdr) take(n int) []byte {
	if r.err != nil || r.off+n > len(r.b) || n < 0 {
		if r.err == nil {
			r.err = fmt.Errorf("message 2 is shorter than its structure needs (offset %d, need %d, have %d)", r.off, n, len(r.b))
		}
		return make([]byte, 8)
	}
	s := r.b[r.off : r.off+n]
	r.off += n
	return s
}

// one MSG + PARAMFMT + PARAMS group of message 2
type group struct {
	msgID int
	names []string
	blobs [][]byte
}

func (r *rdr) group() group {
	var g group
	if t := r.take(1)[0]; t != tdspkg.TokMsg {
		r.fail("expected a MSG token, found %#x", t)
		return g
	}
	if l := r.take(1)[0]; l != 3 {
		r.fail("MSG length %d", l)
	}
	if st := r.take(1)[0]; st != 1 {
		r.fail("MSG status %d (has-arguments expected)", st)
	}
	g.msgID = int(binary.LittleEndian.Uint16(r.take(2)))
	if t := r.take(1)[0]; t != tdspkg.TokParamFmt {
		r.fail("expected PARAMFMT, found %#x", t)
		return g
	}
	total := int(binary.LittleEndian.Uint16(r.take(2)))
	start := r.off
	n := int(binary.LittleEndian.Uint16(r.take(2)))
	var types []byte
	for i := 0; i < n; i++ {
		r.take(int(r.take(1)[0])) // name
		r.take(1)                 // status
		r.take(4)                 // user type
		dt := r.take(1)[0]
		types = append(types, dt)
		switch dt {
		case 0xE1: // LONGBINARY: 4-byte maximal length
			r.take(4)
		case 0x27: // VARCHAR: 1-byte maximal length
			r.take(1)
		default:
			r.fail("unexpected parameter type %#x in message 2", dt)
			return g
		}
		r.take(int(r.take(1)[0])) // locale
	}
	if r.err == nil && r.off-start != total {
		r.fail("PARAMFMT length field %d, %d bytes follow", total, r.off-start)
	}
	if t := r.take(1)[0]; t != tdspkg.TokParams {
		r.fail("expected PARAMS, found %#x", t)
		return g
	}
	for _, dt := range types {
		if dt == 0x27 {
			g.names = append(g.names, string(r.take(int(r.take(1)[0]))))
		} else {
			g.blobs = append(g.blobs, r.take(int(binary.LittleEndian.Uint32(r.take(4)))))
		}
	}
	return g
}

func (r *rdr) fail(f string, a ...interface{}) {
	if r.err == nil {
		r.err = fmt.Errorf(f, a...)
	}
}

func bodies(writes [][]byte, typ byte) ([][]byte, error) {
	// group the client's packets into messages (EOM), return the concatenated bodies per message
	var msgs [][]byte
	var cur []byte
	for i, w := range writes {
		pk, err := hx.ParseStream(w)
		if err != nil || len(pk) != 1 {
			return nil, fmt.Errorf("transport write %d is not one packet: %v", i, err)
		}
		cur = append(cur, pk[0].Body...)
		if pk[0].Status&hx.EOM != 0 {
			msgs = append(msgs, cur)
			cur = nil
		}
	}
	if len(cur) > 0 {
		msgs = append(msgs, cur)
	}
	return msgs, nil
}

func pwClass(c Case) string {
	switch {
	case c.Password == "":
		return "empty"
	case len(c.Password) > 30:
		return "longer-than-30"
	case c.Password == c.User || c.Password == c.Host || c.Password == c.App || c.Password == "512" || c.Password == "utf8":
		return "equals-other-field"
	}
	return "ordinary"
}

func run(c Case) {
	reps := lg.ValidReplies(c.Encrypt, c.KeyBits, nonce(c.Nonce))
	if c.Size != 0 {
		env := tdspkg.EnvChange{Members: []tdspkg.EnvMember{{Type: 4, New: fmt.Sprint(c.Size), Old: "512"}}}
		reps[0].Pkgs = append([]tdspkg.Pkg{env}, reps[0].Pkgs...)
	}
	switch c.Fail {
	case "loginack-fail":
		la := reps[len(reps)-1].Pkgs[0].(tdspkg.LoginAck)
		la.Status = 6
		reps[len(reps)-1].Pkgs[0] = la
	case "stall":
		reps = reps[:len(reps)-1]
	case "bad-key":
		if c.Encrypt {
			d := reps[0].Pkgs[len(reps[0].Pkgs)-2].(tdspkg.Data)
			d.Values = append([]interface{}{}, d.Values...)
			d.Values[1] = []byte("-----BEGIN RSA PUBLIC KEY-----\nAAAA\n-----END RSA PUBLIC KEY-----\n")
			reps[0].Pkgs[len(reps[0].Pkgs)-2] = d
		}
	}
	res := lg.Run(lg.Scenario{Encrypt: c.Encrypt, User: c.User, Password: c.Password, Host: c.Host, App: c.App, Remotes: c.Remotes, Replies: reps, Timeout: 30 * time.Second, Warmup: c.Reuse, ReuseConfig: c.Reuse != "", OldPassword: c.OldPw})
	h.Eval(c.Password != "")
	h.State()
	h.Trace()
	flow := "plain"
	if c.Encrypt {
		flow = "encrypted"
	}
	cls := flow + "|" + pwClass(c)
	if c.Reuse != "" {
		cls += "|config-reused-after-" + c.Reuse + "-login"
	}
	js, _ := json.Marshal(c)
	ctxt := string(js)
	if strings.HasPrefix(res.Failure, "DIVERGED") {
		h.Fatal("%s", res.Failure)
	}
	if res.Failure != "" {
		h.Violate("C09|"+strings.SplitN(res.Failure, ":", 2)[0]+"|"+cls, ctxt+": "+res.Failure, c)
		return
	}
	secrets := []string{c.Password}
	for _, r := range c.Remotes {
		secrets = append(secrets, r[1])
	}
	// error texts never contain a secret (only meaningful for secrets that cannot occur by accident)
	for _, s := range secrets {
		if len(s) >= 12 && strings.Contains(s, "secret") && c.Encrypt && strings.Contains(res.ErrText, s) {
			h.Violate("C09|secret-in-error-text|"+cls, fmt.Sprintf("%s: Login returned %q", ctxt, res.ErrText), c)
			return
		}
	}
	oversize := len(c.User) > 30 || len(c.Host) > 30 || len(c.App) > 30 || (!c.Encrypt && len(c.Password) > 30)
	if oversize {
		// C06: oversized login fields are rejected, nothing is written
		if res.Err == nil || len(res.Writes) != 0 {
			h.Violate("C09|oversized-login-field-not-rejected", fmt.Sprintf("%s: Login returned %v after %d transport writes; a field longer than its 30-byte slot must be rejected, not truncated or shifted", ctxt, res.Err, len(res.Writes)), c)
		} else {
			h.Outcome("oversized-rejected")
		}
		return
	}
	msgs, err := bodies(res.Writes, 2)
	if err != nil || len(msgs) == 0 {
		h.Violate("C09|unparsable-client-bytes|"+cls, fmt.Sprintf("%s: %v (%d writes)", ctxt, err, len(res.Writes)), c)
		return
	}
	// ---- message 1: login record + capability package
	m1 := msgs[0]
	if len(m1) < loginrec.Size {
		h.Violate("C09|login-record|too-short", fmt.Sprintf("%s: first message has %d bytes", ctxt, len(m1)), c)
		return
	}
	rec, err := loginrec.Decode(m1[:loginrec.Size])
	if err != nil {
		h.Violate("C09|login-record|malformed", fmt.Sprintf("%s: %v", ctxt, err), c)
		return
	}
	app := c.App
	if app == "" {
		app = "github.com/SAP/go-dblib/tds"
	}
	want := map[string][2]string{"hostname": {rec.Hostname, c.Host}, "username": {rec.Username, c.User}, "hostproc": {rec.HostProc, "4711"}, "appname": {rec.AppName, app},
		"servname": {rec.ServName, "srv"}, "language": {rec.Language, "us_english"}, "charset": {rec.CharSet, "utf8"}, "packetsize": {rec.PacketSize, "512"}}
	for k, v := range want {
		if v[0] != v[1] {
			h.Violate("C09|login-record|field-differs|"+k, fmt.Sprintf("%s: login record carries %s=%q, configured %q", ctxt, k, v[0], v[1]), c)
			return
		}
	}
	if rec.Int2 != 3 || rec.Int4 != 1 || rec.Flt != 10 || rec.Date != 9 {
		h.Violate("C09|login-record|byte-order-flags", fmt.Sprintf("%s: int2=%d int4=%d flt=%d date=%d do not announce little-endian", ctxt, rec.Int2, rec.Int4, rec.Flt, rec.Date), c)
		return
	}
	if c.Encrypt {
		if rec.Password != "" || !bytes.Equal(rec.PasswordSlot, make([]byte, 30)) {
			h.Violate("C09|login-record|password-slot-not-empty|"+cls, fmt.Sprintf("%s: the password slot of the login record holds %q", ctxt, rec.PasswordSlot), c)
			return
		}
		if len(rec.RemotePasswords) != 0 || !bytes.Equal(rec.RemPwSlot, make([]byte, 255)) {
			h.Violate("C09|login-record|remote-password-slot-not-empty|"+cls, fmt.Sprintf("%s: the remote password slot of the login record holds %q (length %d)", ctxt, bytes.TrimRight(rec.RemPwSlot, "\x00"), len(rec.RemotePasswords)), c)
			return
		}
		if rec.SecLogin != 0x1|0x20|0x80 {
			h.Violate("C09|login-record|seclogin-flags", fmt.Sprintf("%s: seclogin=%#x", ctxt, rec.SecLogin), c)
			return
		}
	} else {
		// control: the plain flow carries the password in its slot
		if rec.Password != c.Password {
			h.Violate("C09|control|plain-password-not-in-slot", fmt.Sprintf("%s: plain flow: slot holds %q", ctxt, rec.Password), c)
			return
		}
	}
	caps := m1[loginrec.Size:]
	if len(caps) < 3 || caps[0] != tdspkg.TokCapability || int(binary.LittleEndian.Uint16(caps[1:]))+3 != len(caps) {
		h.Violate("C09|message1|unaccounted-bytes", fmt.Sprintf("%s: after the login record %d bytes follow that are not exactly one capability package: %x", ctxt, len(caps), head(caps)), c)
		return
	}
	for p := 3; p < len(caps); {
		if p+2 > len(caps) || p+2+int(caps[p+1]) > len(caps) {
			h.Violate("C09|message1|capability-malformed", fmt.Sprintf("%s: %x", ctxt, head(caps)), c)
			return
		}
		p += 2 + int(caps[p+1])
	}
	if !c.Encrypt {
		h.Outcome("plain-control")
		return
	}
	if c.Fail == "bad-key" {
		if len(msgs) > 1 {
			h.Violate("C09|message2-despite-bad-key", ctxt, c)
		}
		h.Outcome("bad-key")
		return
	}
	if c.Fail == "over-capacity" {
		// the key is fine, a secret does not fit into one RSA-OAEP block: the login must fail, and
		// neither the error text (checked above) nor any written byte may carry a secret
		if res.Err == nil {
			h.Violate("C09|over-capacity-secret-accepted", fmt.Sprintf("%s: Login succeeded although a secret exceeds the capacity of the server's key", ctxt), c)
			return
		}
		for _, s := range secrets {
			if len(s) >= 12 && strings.Contains(s, "secret") {
				for i, w := range res.Writes {
					if bytes.Contains(w, []byte(s)) {
						h.Violate("C09|secret-on-the-wire|"+cls, fmt.Sprintf("%s: transport write %d carries a secret in clear", ctxt, i), c)
						return
					}
				}
			}
		}
		h.Outcome("over-capacity-rejected")
		return
	}
	if len(msgs) < 2 {
		h.Violate("C09|message2-missing|"+cls, fmt.Sprintf("%s: the client sent %d messages (login error: %v)", ctxt, len(msgs), res.Err), c)
		return
	}
	if len(msgs) > 2 {
		h.Violate("C09|unexpected-third-message", ctxt, c)
		return
	}
	// ---- message 2
	r := &rdr{b: msgs[1]}
	g1 := r.group()
	g2 := r.group()
	g3 := r.group()
	if r.err == nil && r.off != len(r.b) {
		r.fail("%d bytes after the session key group are not accounted for: %x", len(r.b)-r.off, head(r.b[r.off:]))
	}
	if r.err != nil {
		h.Violate("C09|message2|unaccounted-bytes|"+cls, fmt.Sprintf("%s: %v", ctxt, r.err), c)
		return
	}
	// (a config the library has used before may carry the current-server entries of its earlier logins as well)
	extra := 0
	if c.OldPw != "" {
		extra = len(g2.blobs) - 1 - len(c.Remotes)
		if extra < 0 || extra > 1 {
			extra = 0
		}
	}
	if g1.msgID != 31 || g2.msgID != 32 || g3.msgID != 34 || len(g1.blobs) != 1 || len(g3.blobs) != 1 || len(g2.blobs) != 1+extra+len(c.Remotes) || len(g2.names) != 1+extra+len(c.Remotes) {
		h.Violate("C09|message2|structure", fmt.Sprintf("%s: message ids %d/%d/%d, blobs %d/%d/%d, names %d", ctxt, g1.msgID, g2.msgID, g3.msgID, len(g1.blobs), len(g2.blobs), len(g3.blobs), len(g2.names)), c)
		return
	}
	key := lg.Key(c.KeyBits)
	dec := func(what string, blob []byte) ([]byte, bool) {
		pt, err := rsa.DecryptOAEP(sha1.New(), nil, key, blob, []byte{})
		if err != nil {
			h.Violate("C09|ciphertext|does-not-decrypt|"+what, fmt.Sprintf("%s: the %s blob (%d bytes) does not decrypt under the server's private key with RSA-OAEP/SHA-1: %v", ctxt, what, len(blob), err), c)
			return nil, false
		}
		if !bytes.HasPrefix(pt, nonce(c.Nonce)) {
			h.Violate("C09|ciphertext|nonce-missing|"+what, fmt.Sprintf("%s: the %s plaintext %x does not start with the server's nonce", ctxt, what, pt), c)
			return nil, false
		}
		return pt[c.Nonce:], true
	}
	pw, ok := dec("password", g1.blobs[0])
	if !ok {
		return
	}
	if string(pw) != c.Password {
		h.Violate("C09|ciphertext|wrong-secret|password", fmt.Sprintf("%s: decrypts to %q", ctxt, pw), c)
		return
	}
	wantNames := []string{""}
	wantPw := []string{c.Password}
	if extra == 1 {
		// the entry left by the earlier login: what it should hold after the password was changed is not
		// specified; the FIRST entry for the current server must carry the current password
		wantNames = append(wantNames, "")
		wantPw = append(wantPw, "\x00either")
	}
	for _, rm := range c.Remotes {
		wantNames = append(wantNames, rm[0])
		wantPw = append(wantPw, rm[1])
	}
	for i, b := range g2.blobs {
		s, ok := dec("remote-password", b)
		if !ok {
			return
		}
		if wantPw[i] == "\x00either" && g2.names[i] == "" && (string(s) == c.Password || string(s) == c.OldPw) {
			continue
		}
		if string(s) != wantPw[i] || g2.names[i] != wantNames[i] {
			h.Violate("C09|ciphertext|wrong-secret|remote-password", fmt.Sprintf("%s: remote entry %d: name %q, decrypts to %q; want %q / %q", ctxt, i, g2.names[i], s, wantNames[i], wantPw[i]), c)
			return
		}
	}
	sk, ok := dec("session-key", g3.blobs[0])
	if !ok {
		return
	}
	if len(sk) != 32 {
		h.Violate("C09|session-key|length", fmt.Sprintf("%s: session key has %d bytes", ctxt, len(sk)), c)
		return
	}
	// fresh randomness: the key is one 32-byte draw, all draws are distinct, equal plaintexts give different ciphertexts
	found := 0
	seen := map[string]bool{}
	for _, d := range res.Draws {
		if seen[string(d)] {
			h.Violate("C09|randomness|draw-repeated", fmt.Sprintf("%s: the random source returned %x twice", ctxt, d), c)
			return
		}
		seen[string(d)] = true
		if bytes.Equal(d, sk) {
			found++
		}
	}
	if found != 1 {
		h.Violate("C09|session-key|not-fresh-random", fmt.Sprintf("%s: the session key %x is not (exactly one) draw from the random source (%d draws)", ctxt, sk, len(res.Draws)), c)
		return
	}
	all := append(append([][]byte{g1.blobs[0]}, g2.blobs...), g3.blobs[0])
	for i := range all {
		for j := i + 1; j < len(all); j++ {
			if bytes.Equal(all[i], all[j]) {
				h.Violate("C09|randomness|ciphertext-repeated", fmt.Sprintf("%s: ciphertexts %d and %d are identical: no fresh randomness", ctxt, i, j), c)
				return
			}
		}
	}
	if want := 2 + extra + len(c.Remotes) + 1 + 1; len(res.Draws) != want {
		h.Violate("C09|randomness|draw-count", fmt.Sprintf("%s: %d random draws for %d encryptions and one session key", ctxt, len(res.Draws), want-1), c)
		return
	}
	// no secret in clear anywhere (long secrets cannot collide with other bytes by accident)
	for _, s := range secrets {
		if len(s) >= 12 && strings.Contains(s, "secret") {
			for i, w := range res.Writes {
				if bytes.Contains(w, []byte(s)) {
					h.Violate("C09|secret-in-clear|"+cls, fmt.Sprintf("%s: transport write %d contains the secret %q in clear", ctxt, i, s), c)
					return
				}
			}
		}
	}
	h.Outcome("encrypted-accounted-for")
}

func head(b []byte) []byte {
	if len(b) > 32 {
		return b[:32]
	}
	return b
}

func main() {
	h = hlib.Init("C09")
	var rc Case
	if h.ReplayCase(&rc) {
		run(rc)
		h.ReplayReport()
	}
	idx := 0
	emit := func(c Case) {
		idx++
		if !h.Mine(idx) {
			return
		}
		run(c)
		h.Sample(func() interface{} { return c })
	}
	rep := func(s string, n int) string { return strings.Repeat(s, n/len(s)+1)[:n] }
	for _, bits := range []int{1024, 1536, 2048} {
		capacity := bits/8 - 42
		for _, n := range []int{1, 8, 16, 32} {
			pws := []string{"", "p", "1234567", "12345678", rep("pass-29-", 29), rep("pass-30-", 30), rep("pass-31-", 31), rep("cap-1", capacity-n-1), rep("capac", capacity-n),
				rep("\x00", 14), rep("\xff", 14), "sa", "client-host", "my-application", "512", "utf8", "us_english", "a-rather-long-secret-passphrase"}
			if h.Thorough {
				for l := 0; l <= capacity-n; l += 7 {
					pws = append(pws, rep("Lengths-", l))
				}
			}
			for _, pw := range pws {
				for _, names := range [][3]string{{"sa", "client-host", "my-application"}, {"", "", ""}, {rep("u", 30), rep("h", 30), rep("a", 30)}} {
					for _, rem := range [][][2]string{nil, {{"REMOTE1", "remote-secret-number-one"}}, {{"R1", pw}, {"R2", "x"}, {"R3", "remote-secret-number-three"}}} {
						if len(rem) == 3 && (n != 16 || bits != 2048) {
							continue
						}
						for _, size := range []int{0, 2048} {
							if size != 0 && (len(rem) != 1 || names[0] == "") {
								continue
							}
							emit(Case{Encrypt: true, KeyBits: bits, Nonce: n, Password: pw, User: names[0], Host: names[1], App: names[2], Remotes: rem, Size: size})
							h.Section("encrypted", 1)
						}
					}
				}
				// failing logins: the error text must not leak
				for _, f := range []string{"loginack-fail", "stall", "bad-key"} {
					emit(Case{Encrypt: true, KeyBits: bits, Nonce: n, Password: pw, User: "sa", Host: "client-host", App: "my-application", Remotes: [][2]string{{"R", "remote-secret-number-one"}}, Fail: f})
					h.Section("failing", 1)
				}
				// over-capacity password: must fail without leaking
				emit(Case{Encrypt: true, KeyBits: bits, Nonce: n, Password: rep("over-capacity-secret-", capacity-n+1), User: "sa", Host: "client-host", App: "my-application", Fail: "bad-key"})
				// ... also with a usable key (the encryption itself fails), for the account password and for a remote server's
				emit(Case{Encrypt: true, KeyBits: bits, Nonce: n, Password: rep("over-capacity-secret-", capacity-n+1), User: "sa", Host: "client-host", App: "my-application", Fail: "over-capacity"})
				emit(Case{Encrypt: true, KeyBits: bits, Nonce: n, Password: pw, User: "sa", Host: "client-host", App: "my-application",
					Remotes: [][2]string{{"R1", "remote-secret-number-one"}, {"R2", rep("over-capacity-remote-secret-", capacity-n+7)}}, Fail: "over-capacity"})
				h.Section("over-capacity", 2)
			}
		}
	}
	// history: the LoginConfig object has been used for an earlier login (plain or encrypted) of the process
	for _, reuse := range []string{"plain", "encrypted"} {
		for _, pw := range []string{"a-long-secret-passphrase", "p", "", rep("pass-30-", 30)} {
			for _, rem := range [][][2]string{nil, {{"REMOTE1", "remote-secret-number-one"}}} {
				emit(Case{Encrypt: true, KeyBits: 1024, Nonce: 16, Password: pw, User: "sa", Host: "client-host", App: "my-application", Remotes: rem, Reuse: reuse})
				h.Section("config-reuse", 1)
			}
		}
		emit(Case{Encrypt: false, Password: "plain-password-in-its-slot", User: "sa", Host: "client-host", App: "my-application", Reuse: reuse})
		// ... and the caller changed the account password on the config between the two logins
		for _, rem := range [][][2]string{nil, {{"REMOTE1", "remote-secret-number-one"}}} {
			emit(Case{Encrypt: true, KeyBits: 1024, Nonce: 16, Password: "the-new-secret-password", OldPw: "0ld-secret-passw0rd", User: "sa", Host: "client-host", App: "my-application", Remotes: rem, Reuse: reuse})
			h.Section("config-reuse-password-changed", 1)
		}
	}
	// control: plain flow
	for _, pw := range []string{"", "p", "plain-password-in-its-slot", rep("x", 30)} {
		emit(Case{Encrypt: false, Password: pw, User: "sa", Host: "client-host", App: "my-application"})
		h.Section("plain-control", 1)
	}
	// login record field lengths 0..31 (C06: oversized fields rejected, not truncated or shifted)
	for l := 0; l <= 31; l++ {
		for f := 0; f < 3; f++ {
			names := [3]string{"sa", "client-host", "my-application"}
			names[f] = rep("field-", l)
			emit(Case{Encrypt: true, KeyBits: 1024, Nonce: 16, Password: "secret-password", User: names[0], Host: names[1], App: names[2]})
			h.Section("login-record-lengths", 1)
		}
	}
	// the same with multi-byte characters: the slot holds 30 BYTES, so a field of at most 30
	// characters can still be oversized. Byte lengths 24..36, reached with 2-, 3- and 4-byte
	// characters at the end, at the start, and throughout.
	for _, wide := range []string{"ü", "日", "😀"} {
		for l := 24; l <= 36; l++ {
			var fills []string
			if l >= len(wide) {
				fills = append(fills, rep("field-", l-len(wide))+wide, wide+rep("field-", l-len(wide)))
			}
			if l%len(wide) == 0 {
				fills = append(fills, strings.Repeat(wide, l/len(wide)))
			}
			for _, fill := range fills {
				for f := 0; f < 4; f++ {
					names := [4]string{"sa", "client-host", "my-application", "plain-pw"}
					names[f] = fill
					if f == 3 {
						emit(Case{Encrypt: false, Password: names[3], User: names[0], Host: names[1], App: names[2]})
					} else {
						emit(Case{Encrypt: true, KeyBits: 1024, Nonce: 16, Password: "secret-password", User: names[0], Host: names[1], App: names[2]})
					}
					h.Section("login-record-multibyte", 1)
				}
			}
		}
	}
	h.Done()
}
