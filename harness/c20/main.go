//go:build vrt

// C20 — isolation level mapping is a deterministic, consistent function.
// The root package is instrumented so that every map range draws its
// iteration order from the explorer; each evaluation is explored under ALL
// iteration orders (unbounded deviations).
package main

import (
	"database/sql"
	"encoding/json"
	"fmt"
	"os"
	"os/exec"
	"sort"
	"strconv"
	"strings"

	dblib "github.com/SAP/go-dblib"
	"github.com/SAP/go-dblib/vrt"
	"verif/hlib"
)

type Case struct {
	Op      string `json:"op"` // fromgo | togo | string | roundtrip
	Level   int    `json:"level"`
	Level2  int    `json:"level2,omitempty"`
	Choices []int  `json:"choices,omitempty"`
	Seq     []Step `json:"seq,omitempty"` // op "mixed": a history of different operations in one process
}

type Step struct {
	Op    string `json:"op"`
	Level int    `json:"level"`
}

var h *hlib.H

// reference table, written from the statement
func refFromGo(l sql.IsolationLevel) (dblib.ASEIsolationLevel, bool) {
	switch l {
	case sql.LevelDefault, sql.LevelReadCommitted:
		return dblib.ASELevelReadCommitted, true
	case sql.LevelReadUncommitted:
		return dblib.ASELevelReadUncommitted, true
	case sql.LevelRepeatableRead:
		return dblib.ASELevelRepeatableRead, true
	case sql.LevelSerializable:
		return dblib.ASELevelSerializableRead, true
	}
	return 0, false
}

func eval(c Case) string {
	switch c.Op {
	case "fromgo":
		a, err := dblib.ASEIsolationLevelFromGo(sql.IsolationLevel(c.Level))
		if err != nil {
			return "error"
		}
		return fmt.Sprintf("ase=%d", int(a))
	case "togo":
		return fmt.Sprintf("sql=%d", int(dblib.ASEIsolationLevel(c.Level).ToGo()))
	case "string":
		return "str=" + dblib.ASEIsolationLevel(c.Level).String()
	case "roundtrip":
		a, err := dblib.ASEIsolationLevelFromGo(sql.IsolationLevel(c.Level))
		if err != nil {
			return "error"
		}
		return fmt.Sprintf("sql=%d", int(a.ToGo()))
	case "fromgo-seq", "togo-seq", "string-seq":
		// history: level A, level B, level A again within one process
		op := strings.TrimSuffix(c.Op, "-seq")
		a1 := eval(Case{Op: op, Level: c.Level})
		eval(Case{Op: op, Level: c.Level2})
		a2 := eval(Case{Op: op, Level: c.Level})
		a3 := eval(Case{Op: op, Level: c.Level})
		if a1 != a2 || a2 != a3 {
			return fmt.Sprintf("inconsistent:%s/%s/%s", a1, a2, a3)
		}
		return a1
	}
	return "?"
}

var hiddenState []string

// firstAnswer remembers what togo/string answered the first time they were
// evaluated in this process; every later evaluation, after whatever history,
// must repeat it (the sweep over fresh processes ties the first answers of
// different processes together).
var firstAnswer = map[string]string{}

// mixed runs a history of different operations and checks every answer:
// translations against the reference table, back-translations and names
// against their first answer, round trips against the statement.
func mixed(c Case) {
	var answers []string
	x := vrt.Run(vrt.Config{Lenient: true}, func() {
		answers = answers[:0]
		for _, st := range c.Seq {
			answers = append(answers, eval(Case{Op: st.Op, Level: st.Level}))
		}
	})
	h.Eval(true)
	h.AddStates(1)
	h.AddTransitions(int64(len(c.Seq)))
	h.AddTraces(1)
	h.Section("mixed-history", 1)
	if x.Failure != nil {
		h.Violate("C20|mixed|"+x.Failure.Kind, x.Failure.String(), c)
		return
	}
	for i, st := range c.Seq {
		a := answers[i]
		switch st.Op {
		case "fromgo":
			want, ok := refFromGo(sql.IsolationLevel(st.Level))
			w := "error"
			if ok {
				w = fmt.Sprintf("ase=%d", int(want))
			}
			if a != w {
				h.Violate("C20|fromgo|history-dependent", fmt.Sprintf("history %+v: step %d ASEIsolationLevelFromGo(%d) = %s, reference table says %s", c.Seq, i, st.Level, a, w), c)
				return
			}
		case "togo", "string":
			k := fmt.Sprintf("%s(%d)", st.Op, st.Level)
			if f, ok := firstAnswer[k]; !ok {
				firstAnswer[k] = a
				h.Unique(k, a, "C20|"+st.Op+"|differs-across-processes")
			} else if f != a {
				h.Violate("C20|"+st.Op+"|history-dependent", fmt.Sprintf("history %+v: step %d %s answers %s, it answered %s when first evaluated in this process", c.Seq, i, k, a, f), c)
				return
			}
		case "roundtrip":
			if _, ok := refFromGo(sql.IsolationLevel(st.Level)); ok && sql.IsolationLevel(st.Level) != sql.LevelDefault && a != fmt.Sprintf("sql=%d", st.Level) {
				h.Violate("C20|roundtrip|history-dependent", fmt.Sprintf("history %+v: step %d: supported level %d translated there and back gives %s", c.Seq, i, st.Level, a), c)
				return
			}
		}
	}
	h.Outcome("mixed")
}

func explore(c Case) {
	answers := map[string][]int{}
	var got string
	st := vrt.Explore(vrt.ExploreCfg{Bound: -1, Check: func(x *vrt.Exec) (string, string) {
		if x.Failure != nil {
			return "C20|" + c.Op + "|" + x.Failure.Kind, x.Failure.String()
		}
		if _, ok := answers[got]; !ok {
			ch := make([]int, len(x.Points))
			for i, p := range x.Points {
				ch[i] = p.Chosen
			}
			answers[got] = ch
		}
		return "", ""
	}, OnViolation: func(sig, det string, choices []int, x *vrt.Exec) {
		cc := c
		cc.Choices = choices
		h.Violate(sig, det, cc)
	}}, func() { got = eval(c) })
	if st.Diverged != "" {
		// the evaluation keeps state across executions (a cache filled on first use): in-process
		// exploration of orders is not possible; the cross-process sweep below decides.
		hiddenState = append(hiddenState, fmt.Sprintf("%s(%d): %s", c.Op, c.Level, st.Diverged))
		h.Outcome("hidden-state")
		return
	}
	h.EvalN(st.Execs, st.Execs)
	h.AddStates(st.Execs)
	h.AddTransitions(st.Steps + st.ChoicePts)
	h.AddTraces(st.Execs)
	h.Section(c.Op, st.Execs)
	if len(answers) > 1 {
		det := fmt.Sprintf("%s(%d) gives %d different answers depending on the map iteration order:", c.Op, c.Level, len(answers))
		for a, ch := range answers {
			det += fmt.Sprintf(" %s (order choices %v);", a, ch)
		}
		cc := c
		for _, ch := range answers {
			if len(ch) > 0 {
				cc.Choices = ch
			}
		}
		h.Violate("C20|"+c.Op+"|order-dependent", det, cc)
		h.Outcome("order-dependent")
		return
	}
	for a := range answers {
		switch c.Op {
		case "fromgo":
			want, ok := refFromGo(sql.IsolationLevel(c.Level))
			w := "error"
			if ok {
				w = fmt.Sprintf("ase=%d", int(want))
			}
			if a != w {
				h.Violate("C20|fromgo|wrong", fmt.Sprintf("ASEIsolationLevelFromGo(%d) = %s, reference table says %s", c.Level, a, w), c)
			}
			h.Outcome("fromgo-" + map[bool]string{true: "level", false: "error"}[ok])
		case "roundtrip":
			_, ok := refFromGo(sql.IsolationLevel(c.Level))
			if ok && sql.IsolationLevel(c.Level) != sql.LevelDefault {
				if a != fmt.Sprintf("sql=%d", c.Level) {
					h.Violate("C20|roundtrip|changed", fmt.Sprintf("supported level %d translated there and back gives %s", c.Level, a), c)
				}
			}
			h.Outcome("roundtrip")
		case "fromgo-seq":
			want, ok := refFromGo(sql.IsolationLevel(c.Level))
			w := "error"
			if ok {
				w = fmt.Sprintf("ase=%d", int(want))
			}
			if a != w {
				h.Violate("C20|fromgo|history-dependent", fmt.Sprintf("translating %d, then %d, then %d twice gives %s, reference table says %s every time", c.Level, c.Level2, c.Level, a, w), c)
			}
			h.Outcome("seq")
		case "togo-seq", "string-seq":
			if strings.HasPrefix(a, "inconsistent") {
				h.Violate("C20|"+strings.TrimSuffix(c.Op, "-seq")+"|history-dependent", fmt.Sprintf("%s of %d, then %d, then %d twice: %s", c.Op, c.Level, c.Level2, c.Level, a), c)
			}
			h.Outcome("seq")
		default:
			h.Outcome(c.Op + "-deterministic")
		}
	}
}

// allKeys evaluates every operation on every level once, in a fixed order.
func allAnswers(choices []int) map[string]string {
	out := map[string]string{}
	one := func(c Case) {
		var got string
		x := vrt.Run(vrt.Config{Choices: choices, Lenient: true}, func() { got = eval(c) })
		if x.Failure != nil {
			got = "failure:" + x.Failure.Kind
		}
		out[fmt.Sprintf("%s(%d)", c.Op, c.Level)] = got
	}
	for l := -2; l <= 8; l++ {
		one(Case{Op: "togo", Level: l})
		one(Case{Op: "string", Level: l})
	}
	for l := -8; l <= 64; l++ {
		one(Case{Op: "fromgo", Level: l})
		one(Case{Op: "roundtrip", Level: l})
	}
	// ... and once more now that the forward translation has been used in this process: a fresh
	// process answers the back-translations first, every other history answers them later
	for l := -2; l <= 8; l++ {
		for _, op := range []string{"togo", "string"} {
			var got string
			x := vrt.Run(vrt.Config{Choices: choices, Lenient: true}, func() { got = eval(Case{Op: op, Level: l}) })
			if x.Failure != nil {
				got = "failure:" + x.Failure.Kind
			}
			if first := out[fmt.Sprintf("%s(%d)", op, l)]; first != got {
				out[fmt.Sprintf("%s(%d)", op, l)] = fmt.Sprintf("%s before / %s after the first forward translation of the process", first, got)
			}
		}
	}
	return out
}

// factorial-base digits of n: the n-th permutation of up to 7 keys
func orderChoices(n int) []int {
	var d []int
	for k := 7; k >= 2; k-- {
		d = append(d, n%k)
		n /= k
	}
	return d
}

// sweepProcesses evaluates everything in a fresh process per iteration order
// (so that state built on first use is built under every order) and demands
// one answer per key over all processes.
func sweepProcesses() {
	seen := map[string]map[string]int{}
	n := 0
	for ord := 0; ord < 5040; ord++ {
		if !h.Mine(ord + 7) {
			continue
		}
		if h.Expired("cross-process order sweep cut short") {
			break
		}
		cmd := exec.Command(os.Args[0], "-child", strconv.Itoa(ord))
		// the same order is in force while the child's packages are initialised
		var ic []string
		for _, d := range orderChoices(ord) {
			ic = append(ic, strconv.Itoa(d))
		}
		cmd.Env = append(os.Environ(), "VRT_INIT_CHOICES="+strings.Join(ic, ","))
		bs, err := cmd.Output()
		if err != nil {
			h.Fatal("child %d failed: %v", ord, err)
		}
		var ans map[string]string
		if err := json.Unmarshal(bs, &ans); err != nil {
			h.Fatal("child %d: bad output %q", ord, bs)
		}
		n++
		for k, v := range ans {
			if seen[k] == nil {
				seen[k] = map[string]int{}
			}
			if _, ok := seen[k][v]; !ok {
				seen[k][v] = ord
			}
		}
	}
	h.EvalN(int64(n), int64(n))
	h.AddStates(int64(n))
	h.AddTransitions(int64(n) * 168)
	h.AddTraces(int64(n))
	h.Section("process-per-order", int64(n))
	keys := make([]string, 0, len(seen))
	for k := range seen {
		keys = append(keys, k)
	}
	sort.Strings(keys)
	for _, k := range keys {
		if len(seen[k]) > 1 {
			op := k[:strings.Index(k, "(")]
			h.Violate("C20|"+op+"|differs-across-processes", fmt.Sprintf("%s answers differently in fresh processes depending on the map iteration order in force when it is first used: %v (answer -> order number)", k, seen[k]), Case{Op: "process-sweep", Level: 0})
		}
	}
	// this shard saw only its share of orders: hand the answers to the merge step via outcomes
	for _, k := range keys {
		if len(seen[k]) == 1 {
			for v := range seen[k] {
				op := k[:strings.Index(k, "(")]
				h.Unique(k, v, "C20|"+op+"|differs-across-processes")
			}
		}
	}
}

func main() {
	h = hlib.Init("C20")
	h.UniqueReplay = Case{Op: "process-sweep"}
	if c := hlib.Child(); c != "" {
		ord, _ := strconv.Atoi(c)
		bs, _ := json.Marshal(allAnswers(orderChoices(ord)))
		os.Stdout.Write(bs)
		return
	}
	var rc Case
	if h.ReplayCase(&rc) {
		var got string
		x, div := vrt.Replay(vrt.Config{}, rc.Choices, func() { got = eval(rc) })
		if div != "" {
			h.Fatal("replay: %s", div)
		}
		_ = x
		fmt.Printf("replay: %s(%d) under order choices %v = %s\n", rc.Op, rc.Level, rc.Choices, got)
		if rc.Op == "process-sweep" {
			sweepProcesses()
		} else if rc.Op == "mixed" {
			// the first answers come from a fresh history
			for _, st := range rc.Seq {
				if st.Op == "togo" || st.Op == "string" {
					mixed(Case{Op: "mixed", Seq: []Step{st}})
				}
			}
			mixed(rc)
		} else {
			explore(rc)
		}
		h.ReplayReport()
	}
	idx := 0
	for l := -8; l <= 64; l++ {
		for _, op := range []string{"fromgo", "roundtrip"} {
			idx++
			if h.Mine(idx) {
				c := Case{Op: op, Level: l}
				explore(c)
				h.Sample(func() interface{} { return c })
			}
		}
	}
	for l := -2; l <= 8; l++ {
		for _, op := range []string{"togo", "string"} {
			idx++
			if h.Mine(idx) {
				c := Case{Op: op, Level: l}
				explore(c)
				h.Sample(func() interface{} { return c })
			}
		}
	}
	// histories: A, B, A, A for every ordered pair of levels
	for a := -8; a <= 64; a++ {
		idx++
		if !h.Mine(idx) {
			continue
		}
		for b := -8; b <= 64; b++ {
			explore(Case{Op: "fromgo-seq", Level: a, Level2: b})
		}
	}
	for a := -2; a <= 8; a++ {
		for b := -2; b <= 8; b++ {
			idx++
			if h.Mine(idx) {
				explore(Case{Op: "togo-seq", Level: a, Level2: b})
				explore(Case{Op: "string-seq", Level: a, Level2: b})
			}
		}
	}
	// mixed histories: every sequence of up to 3 operations over the alphabet of all
	// translations, back-translations, names and round trips of the levels -1..8 / -1..6
	var alpha []Step
	for l := -1; l <= 8; l++ {
		alpha = append(alpha, Step{"fromgo", l})
	}
	for l := -1; l <= 6; l++ {
		alpha = append(alpha, Step{"togo", l}, Step{"string", l})
	}
	for l := 0; l <= 7; l++ {
		alpha = append(alpha, Step{"roundtrip", l})
	}
	for _, a := range alpha { // fresh-history answers first
		if a.Op == "togo" || a.Op == "string" {
			mixed(Case{Op: "mixed", Seq: []Step{a}})
		}
	}
	for i, a := range alpha {
		for j, b := range alpha {
			idx++
			if !h.Mine(idx) {
				continue
			}
			_, _ = i, j
			mixed(Case{Op: "mixed", Seq: []Step{a, b}})
			for _, c := range alpha {
				mixed(Case{Op: "mixed", Seq: []Step{a, b, c}})
			}
		}
	}
	sweepProcesses()
	if len(hiddenState) > 0 {
		h.R.Extra["hidden_state_detected"] = hiddenState[0]
	}
	h.Done()
}
