//go:build vrt

// C20 — isolation level mapping is a deterministic, consistent function.
// The root package is instrumented so that every map range draws its
// iteration order from the explorer; each evaluation is explored under ALL
// iteration orders (unbounded deviations).
package main

import (
	"database/sql"
	"fmt"

	dblib "github.com/SAP/go-dblib"
	"github.com/SAP/go-dblib/vrt"
	"verif/hlib"
)

type Case struct {
	Op      string `json:"op"` // fromgo | togo | string | roundtrip
	Level   int    `json:"level"`
	Choices []int  `json:"choices,omitempty"`
}

var h *hlib.H

// reference table, written from the statement
func refFromGo(l sql.IsolationLevel) (dblib.ASEIsolationLevel, bool) {
	switch l {
	case sql.LevelDefault, sql.LevelReadCommitted:
		return dblib.ASELevelReadCommitted, true
	case sql.LevelReadUncommitted:
		return dblib.ASELevelReadUncommitted, true
	case sql.LevelRepeatableRead:
		return dblib.ASELevelRepeatableRead, true
	case sql.LevelSerializable:
		return dblib.ASELevelSerializableRead, true
	}
	return 0, false
}

func eval(c Case) string {
	switch c.Op {
	case "fromgo":
		a, err := dblib.ASEIsolationLevelFromGo(sql.IsolationLevel(c.Level))
		if err != nil {
			return "error"
		}
		return fmt.Sprintf("ase=%d", int(a))
	case "togo":
		return fmt.Sprintf("sql=%d", int(dblib.ASEIsolationLevel(c.Level).ToGo()))
	case "string":
		return "str=" + dblib.ASEIsolationLevel(c.Level).String()
	case "roundtrip":
		a, err := dblib.ASEIsolationLevelFromGo(sql.IsolationLevel(c.Level))
		if err != nil {
			return "error"
		}
		return fmt.Sprintf("sql=%d", int(a.ToGo()))
	}
	return "?"
}

func explore(c Case) {
	answers := map[string][]int{}
	var got string
	st := vrt.Explore(vrt.ExploreCfg{Bound: -1, Check: func(x *vrt.Exec) (string, string) {
		if x.Failure != nil {
			return "C20|" + c.Op + "|" + x.Failure.Kind, x.Failure.String()
		}
		if _, ok := answers[got]; !ok {
			ch := make([]int, len(x.Points))
			for i, p := range x.Points {
				ch[i] = p.Chosen
			}
			answers[got] = ch
		}
		return "", ""
	}, OnViolation: func(sig, det string, choices []int, x *vrt.Exec) {
		cc := c
		cc.Choices = choices
		h.Violate(sig, det, cc)
	}}, func() { got = eval(c) })
	if st.Diverged != "" {
		h.Fatal("diverged: %s", st.Diverged)
	}
	h.EvalN(st.Execs, st.Execs)
	h.AddStates(st.Execs)
	h.AddTransitions(st.Steps + st.ChoicePts)
	h.AddTraces(st.Execs)
	h.Section(c.Op, st.Execs)
	if len(answers) > 1 {
		det := fmt.Sprintf("%s(%d) gives %d different answers depending on the map iteration order:", c.Op, c.Level, len(answers))
		for a, ch := range answers {
			det += fmt.Sprintf(" %s (order choices %v);", a, ch)
		}
		cc := c
		for _, ch := range answers {
			if len(ch) > 0 {
				cc.Choices = ch
			}
		}
		h.Violate("C20|"+c.Op+"|order-dependent", det, cc)
		h.Outcome("order-dependent")
		return
	}
	for a := range answers {
		switch c.Op {
		case "fromgo":
			want, ok := refFromGo(sql.IsolationLevel(c.Level))
			w := "error"
			if ok {
				w = fmt.Sprintf("ase=%d", int(want))
			}
			if a != w {
				h.Violate("C20|fromgo|wrong", fmt.Sprintf("ASEIsolationLevelFromGo(%d) = %s, reference table says %s", c.Level, a, w), c)
			}
			h.Outcome("fromgo-" + map[bool]string{true: "level", false: "error"}[ok])
		case "roundtrip":
			_, ok := refFromGo(sql.IsolationLevel(c.Level))
			if ok && sql.IsolationLevel(c.Level) != sql.LevelDefault {
				if a != fmt.Sprintf("sql=%d", c.Level) {
					h.Violate("C20|roundtrip|changed", fmt.Sprintf("supported level %d translated there and back gives %s", c.Level, a), c)
				}
			}
			h.Outcome("roundtrip")
		default:
			h.Outcome(c.Op + "-deterministic")
		}
	}
}

func main() {
	h = hlib.Init("C20")
	var rc Case
	if h.ReplayCase(&rc) {
		var got string
		x, div := vrt.Replay(vrt.Config{}, rc.Choices, func() { got = eval(rc) })
		if div != "" {
			h.Fatal("replay: %s", div)
		}
		_ = x
		fmt.Printf("replay: %s(%d) under order choices %v = %s\n", rc.Op, rc.Level, rc.Choices, got)
		explore(rc)
		h.ReplayReport()
	}
	idx := 0
	for l := -8; l <= 64; l++ {
		for _, op := range []string{"fromgo", "roundtrip"} {
			idx++
			if h.Mine(idx) {
				c := Case{Op: op, Level: l}
				explore(c)
				h.Sample(func() interface{} { return c })
			}
		}
	}
	for l := -2; l <= 8; l++ {
		for _, op := range []string{"togo", "string"} {
			idx++
			if h.Mine(idx) {
				c := Case{Op: op, Level: l}
				explore(c)
				h.Sample(func() interface{} { return c })
			}
		}
	}
	// conformance of the seam: free evaluations must only show explored answers
	h.Done()
}
