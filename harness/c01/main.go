//go:build vrt

// C01 — outgoing messages are well-formed TDS packet sequences.
// Every case is one controlled execution of the real tds.Conn/Channel over
// the in-memory transport (default schedule): packet size announced by the
// peer via ENVCHANGE, one or two messages composed of 1..3 packages, issued
// through every split over QueuePackage/SendRemainingPackets/SendPackage.
// Oracle: independent depacketiser over the captured transport writes.
package main

import (
	"bytes"
	"context"
	"fmt"
	"strings"

	"github.com/SAP/go-dblib/tds"
	"github.com/SAP/go-dblib/vrt"
	"verif/harness/hx"
	"verif/hlib"
)

type Msg struct {
	Lens    []int `json:"lens"`    // encoded length of each package
	Kinds   []int `json:"kinds"`   // package kind per package
	UseSend bool  `json:"useSend"` // last package via SendPackage (else QueuePackage + SendRemainingPackets)
	Type    byte  `json:"type"`    // header type
}

type Case struct {
	Size1 int  `json:"size1"`
	M1    Msg  `json:"m1"`
	Size2 int  `json:"size2,omitempty"` // 0: no second message; else packet size in force for M2
	M2    *Msg `json:"m2,omitempty"`
	Chan  int  `json:"chan,omitempty"` // 0: channel 0; 1: a logical channel (id > 0, set-up acknowledged by the peer)
	// history: the flush of M1 fails - "ctx": SendRemainingPackets with an expired context, "write": the
	// transport refuses M1's first write, "ctx-send": SendPackage with an expired context; M2 must then be a
	// well-formed message of its own
	Fault string `json:"fault,omitempty"`
}

// streamPkg is a caller-defined package that streams its n bytes through ONE
// reused scratch buffer (as io.CopyBuffer or a bufio.Writer would): after
// every WriteBytes the buffer is refilled with the next chunk.
type streamPkg struct{ n, scratch int }

func (p *streamPkg) content(i int) byte              { return byte(0x30 + (i*7+i/251)%77) }
func (p *streamPkg) ReadFrom(tds.BytesChannel) error { return fmt.Errorf("streamPkg is write-only") }
func (p *streamPkg) String() string                  { return fmt.Sprintf("streamPkg(%d via %d)", p.n, p.scratch) }
func (p *streamPkg) WriteTo(ch tds.BytesChannel) error {
	buf := make([]byte, p.scratch)
	for off := 0; off < p.n; {
		k := p.n - off
		if k > len(buf) {
			k = len(buf)
		}
		for i := 0; i < k; i++ {
			buf[i] = p.content(off + i)
		}
		if err := ch.WriteBytes(buf[:k]); err != nil {
			return err
		}
		off += k
	}
	for i := range buf {
		buf[i] = 0xEE // the buffer goes back to its owner
	}
	return nil
}

var h *hlib.H

// mkPkg builds a client package of kind k whose encoding has exactly n bytes.
func mkPkg(k, n int) tds.Package {
	fill := func(m int) string { return strings.Repeat("abcdefghijklmnopqrstuvwxyz0123456789", m/36+1)[:m] }
	switch {
	case k == 1 && n >= 6:
		return &tds.LanguagePackage{Status: tds.TDS_LANGUAGE_NOARGS, Cmd: fill(n - 6)}
	case k == 2 && n >= 8 && n-8 < 30000:
		// token(1)+len(2)+type(1)+status(1)+idlen(1)+id+stmtlen(2)+stmt
		d := tds.NewDynamicPackage(false)
		d.Type = tds.TDS_DYN_PREPARE
		d.ID = ""
		d.Stmt = fill(n - 8)
		return d
	case k == 3 && n == 5:
		return tds.NewMsgPackage(tds.TDS_MSG_HASARGS, tds.TDS_MSG_SEC_LOGPWD3)
	}
	if k == 4 || k == 5 {
		return &streamPkg{n: n, scratch: map[int]int{4: 4096, 5: 700}[k]}
	}
	p := tds.NewTokenlessPackage()
	b := make([]byte, n)
	for i := range b {
		b[i] = byte(0x41 + i%53)
	}
	p.Data.Write(b)
	return p
}

type sent struct {
	want   []byte
	typ    byte
	size   int
	writes [][]byte
	first  int // index of this message's first packet in the transport's packet log
	err    error
}

func sendMsg(ctx context.Context, ch *tds.Channel, pipe *vrt.Pipe, m Msg, size int, fault string) sent {
	s := sent{typ: m.Type, size: size}
	before := len(pipe.Packets())
	flushCtx := ctx
	switch fault {
	case "ctx", "ctx-send":
		c2, cancel := context.WithCancel(ctx)
		cancel()
		flushCtx = c2
	case "write":
		pipe.FailWrite(len(pipe.Writes()), 0, vrt.ErrReset)
	}
	ch.CurrentHeaderType = tds.PacketHeaderType(m.Type)
	for i, n := range m.Lens {
		pkg := mkPkg(m.Kinds[i], n)
		enc, err := hx.Encode(pkg)
		if err != nil || len(enc) != n {
			h.Fatal("mkPkg(%d,%d) encodes to %d bytes (%v)", m.Kinds[i], n, len(enc), err)
		}
		s.want = append(s.want, enc...)
		last := i == len(m.Lens)-1
		flushed := false
		if last && fault == "ctx-send" {
			s.err = ch.SendPackage(flushCtx, pkg) // the library's own queue-and-flush call, context already expired
			flushed = true
		} else if last && m.UseSend && fault != "ctx" {
			s.err = ch.SendPackage(ctx, pkg)
			flushed = true
		} else {
			s.err = ch.QueuePackage(ctx, pkg)
			if s.err == nil && last {
				s.err = ch.SendRemainingPackets(flushCtx)
				flushed = true
			}
		}
		if s.err != nil {
			if fault != "" && !flushed {
				// the statement speaks of messages that are queued AND flushed: the caller ends its
				// failed message with the flush call (what a failed QueuePackage leaves behind when
				// the caller never flushes is not specified)
				ch.SendRemainingPackets(flushCtx)
			}
			break
		}
	}
	s.first = before
	s.writes = append([][]byte{}, pipe.Packets()[before:]...)
	if len(pipe.Partial()) > 0 {
		s.writes = append(s.writes, append([]byte{}, pipe.Partial()...)) // stray bytes that complete no packet
	}
	return s
}

func setSize(ctx context.Context, ch *tds.Channel, pipe *vrt.Pipe, conn *tds.Conn, size int) error {
	sz := fmt.Sprint(size)
	env := []byte{0xE3, 0, 0, 4, byte(len(sz))}
	env = append(env, sz...)
	env = append(env, 3)
	env = append(env, "512"...)
	l := len(env) - 3
	env[1], env[2] = byte(l), byte(l>>8)
	done := []byte{0xFD, 0, 0, 0, 0, 0, 0, 0, 0}
	pipe.PeerSend(hx.Packet(4, hx.EOM, 0, 0, hx.Concat(env, done)))
	pkg, err := ch.NextPackage(ctx, true)
	if err != nil {
		return err
	}
	if _, ok := pkg.(*tds.DonePackage); !ok {
		return fmt.Errorf("expected DONE after ENVCHANGE, got %v", pkg)
	}
	if conn.PacketSize() != size {
		return fmt.Errorf("packet size %d not applied (PacketSize()=%d)", size, conn.PacketSize())
	}
	return nil
}

type result struct {
	setupErr    string
	msgs        []sent
	setupWrites int
	packets     [][]byte // every complete packet the client wrote, in order
}

func execute(c Case) (res result, x *vrt.Exec) {
	x = vrt.Run(vrt.Config{}, func() {
		ctx := context.Background()
		conn, pipe, err := hx.NewConn(ctx, 100, 50)
		if err != nil {
			res.setupErr = "NewConn: " + err.Error()
			return
		}
		ch, err := conn.NewChannel()
		if err != nil {
			res.setupErr = "NewChannel: " + err.Error()
			return
		}
		ch0 := ch
		if c.Chan == 1 {
			// the peer acknowledges the set-up of logical channels with a header-only PROTACK packet
			vrt.GoNamed("peer", func() {
				for {
					w := pipe.PeerRecv()
					if w == nil {
						return
					}
					if len(w) >= 8 && w[0] == 8 {
						pipe.PeerSend(hx.Packet(11, hx.EOM, int(w[4])<<8|int(w[5]), 0, nil))
					}
				}
			})
			ch, err = conn.NewChannel()
			if err != nil {
				res.setupErr = "NewChannel(logical): " + err.Error()
				return
			}
			res.setupWrites = len(pipe.Packets())
		}
		_ = ch0
		if c.Size1 != 512 {
			if err := setSize(ctx, ch0, pipe, conn, c.Size1); err != nil {
				res.setupErr = "setSize: " + err.Error()
				return
			}
		}
		res.msgs = append(res.msgs, sendMsg(ctx, ch, pipe, c.M1, c.Size1, c.Fault))
		if c.M2 != nil {
			if c.Size2 != c.Size1 {
				if err := setSize(ctx, ch0, pipe, conn, c.Size2); err != nil {
					res.setupErr = "setSize(2): " + err.Error()
					return
				}
			}
			res.msgs = append(res.msgs, sendMsg(ctx, ch, pipe, *c.M2, c.Size2, ""))
		}
		res.packets = append([][]byte{}, pipe.Packets()...)
	})
	return
}

func lenClass(total, body int) string {
	switch {
	case total%body == 0:
		return "exact-multiple"
	case total < body:
		return "short"
	}
	return "multi-packet"
}

func check(c Case, res result, x *vrt.Exec) {
	if x.Diverged != "" {
		h.Fatal("execution diverged: %s", x.Diverged)
	}
	if x.Failure != nil {
		h.Violate("C01|"+x.Failure.Kind, fmt.Sprintf("%+v: %s", c, x.Failure), c)
		return
	}
	if res.setupErr != "" {
		h.Violate("C01|setup", fmt.Sprintf("%+v: %s", c, res.setupErr), c)
		return
	}
	nextNr := -1
	for mi, s := range res.msgs {
		body := s.size - 8
		cls := lenClass(len(s.want), body)
		which := fmt.Sprintf("message %d (%d bytes, packet size %d, body %d)", mi+1, len(s.want), s.size, body)
		if mi == 1 && c.Size2 != c.Size1 {
			cls += "|after-resize"
		}
		if c.Fault != "" {
			if mi == 0 {
				continue // the failed message: whatever left the client before the failure is the peer's problem
			}
			cls += "|after-failed-flush|" + c.Fault
		}
		if s.err != nil {
			h.Violate("C01|send-error|"+cls, fmt.Sprintf("%+v: %s: send returned %v", c, which, s.err), c)
			return
		}
		var got []byte
		npk := len(s.writes)
		if npk == 0 {
			h.Violate("C01|nothing-sent|"+cls, fmt.Sprintf("%+v: %s: no packet reached the transport", c, which), c)
			return
		}
		// the statement is about the BYTES reaching the transport: how they are spread over write calls
		// is the library's business (one call per packet, or several packets per call)
		pks, perr := hx.ParseStream(hx.Concat(s.writes...))
		if perr == nil && c.Fault != "" && mi == 1 {
			// Packets of the failed first message may reach the transport late (a library may buffer
			// packets that do not end a message): the peer sees them, still carrying the first
			// message's type and no end-of-message flag, in front of the second message. What the
			// statement demands is that the packets of the SECOND message - the trailing run carrying
			// its type - hold its bytes and nothing else.
			all, aerr := hx.ParseStream(hx.Concat(res.packets[res.msgs[0].first:]...))
			if aerr == nil {
				k := len(all)
				for k > 0 && all[k-1].Type == s.typ {
					k--
				}
				pks = all[k:]
			}
		}
		if perr != nil {
			h.Violate("C01|not-a-packet-sequence|"+cls, fmt.Sprintf("%+v: %s: the %d bytes written do not parse as consecutive packets: %v", c, which, len(hx.Concat(s.writes...)), perr), c)
			return
		}
		npk = len(pks)
		for i, p := range pks {
			last := i == npk-1
			if p.Length > s.size {
				h.Violate("C01|packet-too-long|"+cls, fmt.Sprintf("%+v: %s: packet %d has length %d > packet size", c, which, i, p.Length), c)
				return
			}
			if !last && p.Length != s.size {
				h.Violate("C01|inner-packet-not-full|"+cls, fmt.Sprintf("%+v: %s: packet %d of %d has length %d", c, which, i, npk, p.Length), c)
				return
			}
			if p.Type != s.typ {
				h.Violate("C01|wrong-type|"+cls, fmt.Sprintf("%+v: %s: packet %d has type %d want %d", c, which, i, p.Type, s.typ), c)
				return
			}
			if c.Chan == 0 && p.Channel != 0 {
				h.Violate("C01|wrong-channel|"+cls, fmt.Sprintf("%+v: %s: packet %d carries channel %d", c, which, i, p.Channel), c)
				return
			}
			if c.Chan == 1 {
				if p.Channel != 1 {
					h.Violate("C01|wrong-channel|logical|"+cls, fmt.Sprintf("%+v: %s: packet %d carries channel %d, the logical channel has id 1", c, which, i, p.Channel), c)
					return
				}
				if nextNr >= 0 && p.PacketNr != nextNr {
					h.Violate("C01|packet-number|"+cls, fmt.Sprintf("%+v: %s: packet %d carries packet number %d, expected %d (consecutive modulo 256)", c, which, i, p.PacketNr, nextNr), c)
					return
				}
				nextNr = (p.PacketNr + 1) % 256
			}
			eom := p.Status&hx.EOM != 0
			if eom && !last {
				h.Violate("C01|early-EOM|"+cls, fmt.Sprintf("%+v: %s: packet %d of %d carries EOM", c, which, i, npk), c)
				return
			}
			if !eom && last {
				h.Violate("C01|no-EOM|"+cls, fmt.Sprintf("%+v: %s: %d packets sent, the last one (length %d) does not carry EOM: the message never ends", c, which, npk, p.Length), c)
				return
			}
			got = append(got, p.Body...)
		}
		if !bytes.Equal(got, s.want) {
			kind := "differs"
			if len(got) < len(s.want) {
				kind = "bytes-lost"
			} else if len(got) > len(s.want) {
				kind = "extra-bytes"
			}
			h.Violate("C01|body-"+kind+"|"+cls, fmt.Sprintf("%+v: %s: packet bodies concatenate to %d bytes, the packages encode to %d (first difference at %d)", c, which, len(got), len(s.want), firstDiff(got, s.want)), c)
			return
		}
		h.Outcome(fmt.Sprintf("ok-%s-%dpk", strings.Split(cls, "|")[0], min(npk, 4)))
	}
}

func min(a, b int) int {
	if a < b {
		return a
	}
	return b
}

func firstDiff(a, b []byte) int {
	for i := 0; i < len(a) && i < len(b); i++ {
		if a[i] != b[i] {
			return i
		}
	}
	return min(len(a), len(b))
}

func run(c Case) {
	res, x := execute(c)
	total := 0
	for _, n := range c.M1.Lens {
		total += n
	}
	h.Eval(total >= c.Size1-8)
	h.AddTransitions(int64(x.Steps))
	h.State()
	h.Trace()
	check(c, res, x)
}

// compositions of total length L into packages, boundaries near packet boundaries
func compositions(L, body int, rot *int) []Msg {
	var out []Msg
	types := []byte{15, 2, 1, 3}
	add := func(lens []int) {
		for _, n := range lens {
			if n <= 0 {
				return
			}
		}
		kinds := make([]int, len(lens))
		for i := range kinds {
			*rot++
			kinds[i] = *rot % 4
		}
		for _, us := range []bool{false, true} {
			*rot++
			out = append(out, Msg{Lens: append([]int{}, lens...), Kinds: kinds, UseSend: us, Type: types[*rot%len(types)]})
		}
	}
	add([]int{L})
	for _, a := range []int{1, 5, body - 1, body, body + 1} {
		if a < L {
			add([]int{a, L - a})
		}
	}
	for _, a := range []int{1, body - 1, body} {
		for _, b := range []int{1, body, body + 1} {
			if a+b < L {
				add([]int{a, b, L - a - b})
			}
		}
	}
	return out
}

func lengths(body int, ks int) []int {
	seen := map[int]bool{}
	var out []int
	for _, l := range []int{1, 2, 7, 8, 9} {
		if !seen[l] {
			seen[l] = true
			out = append(out, l)
		}
	}
	for k := 1; k <= ks; k++ {
		for d := -1; d <= 1; d++ {
			l := k*body + d
			if l > 0 && !seen[l] {
				seen[l] = true
				out = append(out, l)
			}
		}
	}
	return out
}

func main() {
	h = hlib.Init("C01")
	var rc Case
	if h.ReplayCase(&rc) {
		run(rc)
		h.ReplayReport()
	}
	sizes := []int{256, 257, 263, 511, 512, 513, 1024, 4096, 32768, 65534, 65535}
	idx := 0
	rot := 0
	// part 1: single messages, all compositions and splits, boundary lengths
	for _, P := range sizes {
		body := P - 8
		for _, L := range lengths(body, 3) {
			idx++
			if !h.Mine(idx) {
				continue
			}
			for _, m := range compositions(L, body, &rot) {
				c := Case{Size1: P, M1: m}
				run(c)
				h.Sample(func() interface{} { return c })
				h.Section("single-message", 1)
			}
		}
	}
	// part 2: every ordered pair of boundary messages on one channel, with and without a size change
	pairSizes := []int{256, 512, 513, 4096}
	for _, P := range pairSizes {
		for _, P2 := range pairSizes {
			body, body2 := P-8, P2-8
			for _, L1 := range lengths(body, 2) {
				idx++
				if !h.Mine(idx) {
					continue
				}
				for _, L2 := range lengths(body2, 2) {
					for _, us := range []bool{false, true} {
						rot++
						m1 := Msg{Lens: []int{L1}, Kinds: []int{rot % 4}, UseSend: us, Type: 15}
						m2 := Msg{Lens: []int{L2}, Kinds: []int{(rot + 1) % 4}, UseSend: !us, Type: 1}
						if L1 > 2 {
							m1 = Msg{Lens: []int{1, L1 - 1}, Kinds: []int{0, rot % 4}, UseSend: us, Type: 15}
						}
						c := Case{Size1: P, M1: m1, Size2: P2, M2: &m2}
						run(c)
						h.Section("message-pairs", 1)
					}
				}
			}
		}
	}
	// part 2b: the same boundary messages on a logical channel (id and consecutive packet numbers, incl. wrap-around)
	for _, P := range []int{256, 512, 4096} {
		body := P - 8
		for _, L := range append(lengths(body, 3), 300*body-1, 260*body) {
			idx++
			if !h.Mine(idx) {
				continue
			}
			for _, us := range []bool{false, true} {
				rot++
				m1 := Msg{Lens: []int{L}, Kinds: []int{0}, UseSend: us, Type: 15}
				if L > 10 && L < 30000 {
					m1 = Msg{Lens: []int{5, L - 5}, Kinds: []int{3, 1}, UseSend: us, Type: 15}
				}
				m2 := Msg{Lens: []int{body + 1}, Kinds: []int{1}, UseSend: !us, Type: 1}
				run(Case{Size1: P, M1: m1, Size2: P, M2: &m2, Chan: 1})
				h.Section("logical-channel", 1)
			}
		}
	}
	// part 2b': messages of (about) 255, 256, 257 and 512 packets: packet counters that wrap
	for _, P := range []int{256, 512} {
		body := P - 8
		for _, k := range []int{255, 256, 257, 512} {
			idx++
			if !h.Mine(idx) {
				continue
			}
			for d := -1; d <= 1; d++ {
				for _, chn := range []int{0, 1} {
					m1 := Msg{Lens: []int{k*body + d}, Kinds: []int{0}, UseSend: d == 0, Type: 15}
					m2 := Msg{Lens: []int{body}, Kinds: []int{0}, UseSend: true, Type: 1}
					run(Case{Size1: P, M1: m1, Size2: P, M2: &m2, Chan: chn})
					h.Section("many-packet-messages", 1)
				}
			}
		}
	}
	// part 2c: caller-defined packages that stream through one reused buffer (kinds 4, 5)
	for _, P := range []int{256, 512, 513, 2048, 4096} {
		body := P - 8
		for _, L := range append(lengths(body, 3), 5*body+3, 9000) {
			idx++
			if !h.Mine(idx) {
				continue
			}
			for _, k := range []int{4, 5} {
				for _, us := range []bool{false, true} {
					run(Case{Size1: P, M1: Msg{Lens: []int{L}, Kinds: []int{k}, UseSend: us, Type: 15}})
					if L > 7 {
						m2 := Msg{Lens: []int{L - 3}, Kinds: []int{k}, UseSend: !us, Type: 1}
						run(Case{Size1: P, M1: Msg{Lens: []int{3, L - 3}, Kinds: []int{0, k}, UseSend: us, Type: 15}, Size2: P, M2: &m2})
					}
					h.Section("streaming-packages", 1)
				}
			}
		}
	}
	// part 2d: history with a failed flush: the next message on the channel is a message of its own
	for _, P := range []int{256, 512, 4096} {
		body := P - 8
		for _, L1 := range lengths(body, 2) {
			idx++
			if !h.Mine(idx) {
				continue
			}
			for _, fault := range []string{"ctx", "ctx-send", "write"} {
				for _, L2 := range []int{5, body - 1, body, body + 1} {
					for _, us := range []bool{false, true} {
						rot++
						m1 := Msg{Lens: []int{L1}, Kinds: []int{rot % 2}, UseSend: us, Type: 15}
						if L1 > 12 {
							m1 = Msg{Lens: []int{L1 - 10, 10}, Kinds: []int{0, 1}, UseSend: us, Type: 15}
						}
						m2 := Msg{Lens: []int{L2}, Kinds: []int{1 - rot%2}, UseSend: !us, Type: 1}
						if L2 < 6 {
							m2.Kinds = []int{0}
						}
						run(Case{Size1: P, M1: m1, Size2: P, M2: &m2, Fault: fault})
						h.Section("after-failed-flush", 1)
					}
				}
			}
		}
	}
	// part 3 (thorough): every packet size 256..65535, lengths k*body+d, k in 1..2
	{
		step := 61
		if h.Thorough {
			step = 1
		}
		for P := 256; P <= 65535; P += step {
			idx++
			if !h.Mine(idx) {
				continue
			}
			if h.Expired(fmt.Sprintf("full packet-size sweep stopped at P=%d", P)) {
				break
			}
			body := P - 8
			for k := 1; k <= 2; k++ {
				for d := -1; d <= 1; d++ {
					rot++
					L := k*body + d
					var m Msg
					if rot%2 == 0 {
						m = Msg{Lens: []int{L}, Kinds: []int{rot % 4}, UseSend: rot%4 < 2, Type: 15}
					} else {
						m = Msg{Lens: []int{body, L - body}, Kinds: []int{0, 1}, UseSend: rot%4 < 2, Type: 15}
						if L-body <= 0 {
							m = Msg{Lens: []int{L}, Kinds: []int{1}, UseSend: true, Type: 15}
						}
					}
					run(Case{Size1: P, M1: m})
					h.Section("all-packet-sizes", 1)
				}
			}
		}
	}
	h.Done()
}
