//go:build vrt

package main

import (
	"bytes"
	"fmt"
	"strings"
	"time"

	"verif/harness/hx"
	"verif/harness/lg"
	"verif/ref/loginrec"
)

// LoginCase: one configuration of the eight string fields of the login
// record (index into loginFields -> value; absent = default).
type LoginCase struct {
	Fields map[string]string `json:"fields"`
}

var loginFields = []string{"hostname", "username", "password", "hostproc", "appname", "servname", "language", "charset"}

var loginDefaults = map[string]string{"hostname": "client-host", "username": "sa", "password": "plain-pw", "hostproc": "4711", "appname": "my-application", "servname": "srv", "language": "us_english", "charset": "utf8"}

// runLogin performs a plain-flow login with the configured fields against a
// scripted accepting peer and decodes the 568-byte record the client wrote
// with the independent decoder.
func runLogin(c LoginCase) {
	val := func(f string) string {
		if v, ok := c.Fields[f]; ok {
			return v
		}
		return loginDefaults[f]
	}
	opt := func(f string) string { // lg: "" keeps the default
		v, ok := c.Fields[f]
		switch {
		case !ok:
			return ""
		case v == "":
			return "\x00empty"
		}
		return v
	}
	if v, ok := c.Fields["hostname"]; ok && v == "" {
		return // an empty client host name makes the library ask the operating system
	}
	sc := lg.Scenario{Encrypt: false, User: val("username"), Password: val("password"), Host: val("hostname"), App: val("appname"),
		HostProc: opt("hostproc"), ServName: opt("servname"), Language: opt("language"), CharSet: opt("charset"),
		Replies: lg.ValidReplies(false, 1024, nil), Timeout: 30 * time.Second}
	if v, ok := c.Fields["appname"]; ok && v == "" {
		return // lg cannot express an empty application name (it means "library default")
	}
	res := lg.Run(sc)
	h.Eval(true)
	h.Section("login-record", 1)
	ctxt := fmt.Sprintf("login record with %q", c.Fields)
	if res.Failure != "" {
		if strings.HasPrefix(res.Failure, "DIVERGED") {
			h.Fatal("%s", res.Failure)
		}
		h.Violate("C06|login-record|"+strings.SplitN(res.Failure, ":", 2)[0], ctxt+": "+res.Failure, Case{Login: &c})
		return
	}
	over := ""
	for _, f := range loginFields {
		if len(val(f)) > 30 {
			over = f
		}
	}
	if over != "" {
		if res.Err == nil || len(res.Writes) != 0 {
			h.Violate("C06|login-record|oversized-not-rejected", fmt.Sprintf("%s: %s has %d bytes for a 30-byte slot, Login returned %v after %d transport writes; an oversized field must be rejected, not truncated or shifted", ctxt, over, len(val(over)), res.Err, len(res.Writes)), Case{Login: &c})
			return
		}
		h.Outcome("login-oversized-rejected")
		return
	}
	if res.Err != nil {
		h.Violate("C06|login-record|valid-rejected", fmt.Sprintf("%s: Login failed: %v", ctxt, res.Err), Case{Login: &c})
		return
	}
	var m1 []byte
	for i, w := range res.Writes {
		pk, err := hx.ParseStream(w)
		if err != nil || len(pk) != 1 {
			h.Violate("C06|login-record|unparsable-client-bytes", fmt.Sprintf("%s: transport write %d is not one packet: %v", ctxt, i, err), Case{Login: &c})
			return
		}
		m1 = append(m1, pk[0].Body...)
		if pk[0].Status&hx.EOM != 0 {
			break
		}
	}
	if len(m1) < loginrec.Size {
		h.Violate("C06|login-record|too-short", fmt.Sprintf("%s: first message has %d bytes", ctxt, len(m1)), Case{Login: &c})
		return
	}
	rec, err := loginrec.Decode(m1[:loginrec.Size])
	if err != nil {
		h.Violate("C06|login-record|malformed", fmt.Sprintf("%s: %v", ctxt, err), Case{Login: &c})
		return
	}
	got := map[string]string{"hostname": rec.Hostname, "username": rec.Username, "password": rec.Password, "hostproc": rec.HostProc, "appname": rec.AppName, "servname": rec.ServName, "language": rec.Language, "charset": rec.CharSet}
	for _, f := range loginFields {
		if got[f] != val(f) {
			h.Violate("C06|login-record|field-differs|"+f, fmt.Sprintf("%s: the record carries %s=%q, configured %q", ctxt, f, got[f], val(f)), Case{Login: &c})
			return
		}
	}
	if rec.Int2 != 3 || rec.Int4 != 1 || rec.Flt != 10 || rec.Date != 9 || rec.TDSVersion != [4]byte{5, 0, 0, 0} || !bytes.Equal(rec.RemPwSlot, make([]byte, 255)) {
		h.Violate("C06|login-record|fixed-part", fmt.Sprintf("%s: int2=%d int4=%d flt=%d date=%d tds=%v remote password slot %x", ctxt, rec.Int2, rec.Int4, rec.Flt, rec.Date, rec.TDSVersion, bytes.TrimRight(rec.RemPwSlot, "\x00")), Case{Login: &c})
		return
	}
	h.Outcome("login-record-ok")
}

// loginLeg enumerates: every field at every ASCII byte length 0..33; every
// field with 2-, 3- and 4-byte characters at byte lengths 24..36; every pair
// of fields at the lengths {0, 29, 30, 31} simultaneously.
func loginLeg(idx *int) {
	rep := func(s string, n int) string {
		if n <= 0 {
			return ""
		}
		return strings.Repeat(s, n/len(s)+1)[:n]
	}
	emit := func(c LoginCase) {
		*idx++
		if h.Mine(*idx) {
			runLogin(c)
			h.Sample(func() interface{} { return c })
		}
	}
	for _, f := range loginFields {
		for l := 0; l <= 33; l++ {
			emit(LoginCase{Fields: map[string]string{f: rep("field-", l)}})
		}
		for _, wide := range []string{"ü", "日", "😀"} {
			for l := 24; l <= 36; l++ {
				if l >= len(wide) {
					emit(LoginCase{Fields: map[string]string{f: rep("field-", l-len(wide)) + wide}})
					emit(LoginCase{Fields: map[string]string{f: wide + rep("field-", l-len(wide))}})
				}
				if l%len(wide) == 0 {
					emit(LoginCase{Fields: map[string]string{f: strings.Repeat(wide, l/len(wide))}})
				}
			}
		}
	}
	for i, f := range loginFields {
		for _, g := range loginFields[i+1:] {
			for _, lf := range []int{0, 29, 30, 31} {
				for _, lg2 := range []int{0, 29, 30, 31} {
					emit(LoginCase{Fields: map[string]string{f: rep("first-", lf), g: rep("second", lg2)}})
				}
			}
		}
	}
}
