package main

import (
	"fmt"
	"sort"
	"strconv"

	"github.com/SAP/go-dblib/tds"
	"verif/harness/hx"
	"verif/hlib"
)

// HistCase: a history of operations on ONE CapabilityPackage object (the
// package type with mutators): "+q<n>" / "-q<n>" set / clear request
// capability n, "+r<n>" / "-r<n>" the same for response capabilities,
// "W" serialise, "H" query, "R" read the object's own last encoding back
// into it (while it still holds the same set). After the history the object must serialise like a fresh package
// holding the model's set, and answer Has accordingly.
type HistCase struct {
	Ops []string `json:"ops"`
}

var histAlphabet = []string{"W", "+q1", "-q1", "+q2", "-q2", "+q10", "-q10", "+r1", "-r1", "+r9", "-r9", "H", "R"}

func runHist(c HistCase) {
	h.Eval(true)
	h.Section("capability-history", 1)
	fail := func(sig, f string, a ...interface{}) {
		h.Violate("C06|CapabilityPackage|history|"+sig, fmt.Sprintf("after %v: ", c.Ops)+fmt.Sprintf(f, a...), Case{Hist: &c})
	}
	req, res := map[int]bool{}, map[int]bool{}
	var pkg *tds.CapabilityPackage
	var last []byte
	var lastReq, lastRes map[int]bool
	clone := func(m map[int]bool) map[int]bool {
		o := map[int]bool{}
		for k, v := range m {
			o[k] = v
		}
		return o
	}
	pan, msg := hlib.Catch(func() {
		var err error
		pkg, err = tds.NewCapabilityPackage(nil, nil, nil)
		if err != nil {
			panic(err)
		}
		for _, op := range c.Ops {
			switch op[0] {
			case 'W':
				last, err = hx.Encode(pkg)
				if err != nil {
					panic(err)
				}
				lastReq, lastRes = clone(req), clone(res)
			case 'H':
				_ = pkg.HasRequestCapability(1)
				_ = pkg.HasResponseCapability(1)
			case 'R':
				// only while the object still holds what it wrote: what reading into an object
				// that was changed since should do (replace or merge) is not part of the statement
				if last != nil && fmt.Sprint(sortedOn(req), sortedOn(res)) == fmt.Sprint(sortedOn(lastReq), sortedOn(lastRes)) {
					if err := pkg.ReadFrom(&hx.Flat{Buf: last[1:]}); err != nil {
						panic(fmt.Sprintf("reading the object's own encoding back: %v", err))
					}
					req, res = clone(lastReq), clone(lastRes) // the object now holds what that encoding held
				}
			case '+', '-':
				n, _ := strconv.Atoi(op[2:])
				if op[1] == 'q' {
					err = pkg.SetRequestCapability(tds.RequestCapability(n), op[0] == '+')
					req[n] = op[0] == '+'
				} else {
					err = pkg.SetResponseCapability(tds.ResponseCapability(n), op[0] == '+')
					res[n] = op[0] == '+'
				}
				if err != nil {
					panic(err)
				}
			}
		}
	})
	if pan {
		fail("panic", "%s", msg)
		return
	}
	var rq []tds.RequestCapability
	var rs []tds.ResponseCapability
	for _, n := range sortedOn(req) {
		rq = append(rq, tds.RequestCapability(n))
	}
	for _, n := range sortedOn(res) {
		rs = append(rs, tds.ResponseCapability(n))
	}
	fresh, err := tds.NewCapabilityPackage(rq, rs, nil)
	if err != nil {
		h.Fatal("NewCapabilityPackage: %v", err)
	}
	for n := 1; n <= 12; n++ {
		if pkg.HasRequestCapability(tds.RequestCapability(n)) != req[n] || pkg.HasResponseCapability(tds.ResponseCapability(n)) != res[n] {
			fail("has", "Has(request %d)=%v Has(response %d)=%v, the history leaves request %v response %v", n, pkg.HasRequestCapability(tds.RequestCapability(n)), n, pkg.HasResponseCapability(tds.ResponseCapability(n)), sortedOn(req), sortedOn(res))
			return
		}
	}
	e1, err1 := hx.Encode(pkg)
	e2, err2 := hx.Encode(fresh)
	d1, derr1 := decodeClient(e1)
	d2, derr2 := decodeClient(e2)
	if err1 != nil || err2 != nil || derr1 != nil || derr2 != nil || d1 != d2 {
		fail("stale-encoding", "the object serialises as %s (%v %v), a fresh package with request %v response %v as %s (%v %v)", d1, err1, derr1, sortedOn(req), sortedOn(res), d2, err2, derr2)
		return
	}
	e3, _ := hx.Encode(pkg)
	if string(e3) != string(e1) {
		fail("unstable-encoding", "two consecutive serialisations differ: %x vs %x", e1, e3)
		return
	}
	h.Outcome("capability-history-ok")
}

func sortedOn(m map[int]bool) []int {
	var out []int
	for n, on := range m {
		if on {
			out = append(out, n)
		}
	}
	sort.Ints(out)
	return out
}

// histLeg enumerates every history up to the depth.
func histLeg(idx *int, depth int) {
	var rec func(ops []string)
	rec = func(ops []string) {
		if len(ops) > 0 {
			runHist(HistCase{Ops: append([]string{}, ops...)})
		}
		if len(ops) == depth {
			return
		}
		for _, a := range histAlphabet {
			if len(ops) == 1 {
				*idx++
				if !h.Mine(*idx) {
					continue
				}
			}
			rec(append(ops, a))
		}
	}
	rec(nil)
}

// rewrite: every library package of the corpus serialised again (and again)
// from the same object must give the same bytes.
func rewrite(name string, pkg tds.Package, enc []byte) {
	for i := 0; i < 2; i++ {
		again, err := hx.Encode(pkg)
		if _, isCap := pkg.(*tds.CapabilityPackage); isCap {
			d1, _ := decodeClient(enc)
			d2, _ := decodeClient(again)
			if err == nil && d1 == d2 {
				continue
			}
		}
		if err != nil || string(again) != string(enc) {
			h.Violate("C06|"+kindOf(pkg)+"|rewrite-differs", fmt.Sprintf("%s: serialising the same package object again gives different bytes (err %v)\nfirst: %x\nagain: %x", name, err, head(enc), head(again)), Case{Entry: name})
			return
		}
	}
}
