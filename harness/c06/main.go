// C06 — package encodings are self-consistent and match their wire layout.
// Complete enumeration of the package corpus (harness/pkgcorpus):
//   - server-side packages: the independent reference encoding must decode
//     to the same field values and be consumed exactly;
//   - packages the library writes: reading back what it wrote reproduces the
//     package and consumes exactly the bytes written;
//   - client-side packages are recovered field by field by independent
//     decoders (every length / count field must equal what follows).
//
// The fixed-layout login record is only reachable through Channel.Login:
// login.go drives a plain-flow login per field configuration against a
// scripted peer (controlled execution) and decodes the record independently.
package main

import (
	"encoding/binary"
	"fmt"
	"reflect"
	"strings"

	"github.com/SAP/go-dblib/tds"
	"verif/harness/hx"
	"verif/harness/pkgcorpus"
	"verif/harness/rx"
	"verif/hlib"
)

type Case struct {
	Entry string     `json:"entry,omitempty"`
	Login *LoginCase `json:"login,omitempty"`
	Hist  *HistCase  `json:"hist,omitempty"`
}

var h *hlib.H
var corpus = map[string]pkgcorpus.Entry{}

func kindOf(p interface{}) string {
	return strings.TrimPrefix(strings.TrimPrefix(fmt.Sprintf("%T", p), "*"), "tds.")
}

func lenClass(e pkgcorpus.Entry) string {
	switch {
	case strings.Contains(e.Name, "narrow"):
		return "narrow"
	case len(e.Enc) > 300:
		return "long"
	}
	return "any"
}

// independent decoders of client-side packages: return a description and an error for inconsistent lengths
func decodeClient(enc []byte) (string, error) {
	if len(enc) == 0 {
		return "", fmt.Errorf("empty")
	}
	b := enc[1:]
	le16 := func(o int) int { return int(binary.LittleEndian.Uint16(b[o:])) }
	le32 := func(o int) int { return int(binary.LittleEndian.Uint32(b[o:])) }
	switch enc[0] {
	case 0x21: // LANGUAGE: len4, status1, text
		if len(b) < 5 {
			return "", fmt.Errorf("short")
		}
		if le32(0) != len(b)-4 {
			return "", fmt.Errorf("length field %d, %d bytes follow", le32(0), len(b)-4)
		}
		return fmt.Sprintf("LANGUAGE status=%d cmd=%q", b[4], b[5:]), nil
	case 0x65: // MSG
		if len(b) != 4 || b[0] != 3 {
			return "", fmt.Errorf("length field %d, %d bytes follow", b[0], len(b)-1)
		}
		return fmt.Sprintf("MSG status=%d id=%d", b[1], le16(2)), nil
	case 0x71:
		if len(b) != 1 {
			return "", fmt.Errorf("logout with %d bytes", len(b))
		}
		return fmt.Sprintf("LOGOUT %d", b[0]), nil
	case 0xE7, 0x62: // DYNAMIC / DYNAMIC2
		wide := enc[0] == 0x62
		o := 2
		total := 0
		if wide {
			if len(b) < 4 {
				return "", fmt.Errorf("short")
			}
			total, o = le32(0), 4
		} else {
			if len(b) < 2 {
				return "", fmt.Errorf("short")
			}
			total = le16(0)
		}
		if total != len(b)-o {
			return "", fmt.Errorf("length field %d, %d bytes follow", total, len(b)-o)
		}
		typ, st, idl := b[o], b[o+1], int(b[o+2])
		id := string(b[o+3 : o+3+idl])
		p := o + 3 + idl
		stmt := ""
		if typ&0x01 != 0 || typ&0x08 != 0 {
			var sl int
			if wide {
				sl = le32(p)
				p += 4
			} else {
				sl = le16(p)
				p += 2
			}
			if p+sl != len(b) {
				return "", fmt.Errorf("statement length %d, %d bytes follow", sl, len(b)-p)
			}
			stmt = string(b[p : p+sl])
			p += sl
		}
		if p != len(b) {
			return "", fmt.Errorf("%d trailing bytes", len(b)-p)
		}
		return fmt.Sprintf("DYNAMIC wide=%v type=%d status=%d id=%q stmt=%q", wide, typ, st, id, stmt), nil
	case 0xE2: // CAPABILITY
		if len(b) < 2 || le16(0) != len(b)-2 {
			return "", fmt.Errorf("length field, %d bytes follow", len(b)-2)
		}
		s := "CAPABILITY"
		type ent struct {
			t byte
			m []byte
		}
		var es []ent
		for p := 2; p < len(b); {
			if p+2 > len(b) || p+2+int(b[p+1]) > len(b) {
				return "", fmt.Errorf("mask overruns the package")
			}
			es = append(es, ent{b[p], b[p+2 : p+2+int(b[p+1])]})
			p += 2 + int(b[p+1])
		}
		// the order of types on the wire is not fixed: sort
		for i := range es {
			for j := i + 1; j < len(es); j++ {
				if es[j].t < es[i].t {
					es[i], es[j] = es[j], es[i]
				}
			}
		}
		for _, e := range es {
			var bits []int
			for n := 0; n < len(e.m)*8; n++ {
				if e.m[len(e.m)-1-n/8]&(1<<uint(n%8)) != 0 {
					bits = append(bits, n)
				}
			}
			if len(bits) > 0 {
				s += fmt.Sprintf(" type%d=%v", e.t, bits)
			}
		}
		return s, nil
	}
	return "", nil
}

func libClientDesc(p tds.Package, wideWanted bool) string {
	switch x := p.(type) {
	case *tds.LanguagePackage:
		return fmt.Sprintf("LANGUAGE status=%d cmd=%q", int(x.Status), x.Cmd)
	case *tds.MsgPackage:
		return fmt.Sprintf("MSG status=%d id=%d", uint8(x.Status), uint16(x.MsgId))
	case *tds.LogoutPackage:
		return fmt.Sprintf("LOGOUT %d", x.Options)
	case *tds.DynamicPackage:
		stmt := x.Stmt
		if x.Type&tds.TDS_DYN_PREPARE == 0 && x.Type&tds.TDS_DYN_EXEC_IMMED == 0 {
			stmt = ""
		}
		// (whether the package was constructed wide is known from the corpus entry, not from a private field)
		return fmt.Sprintf("DYNAMIC wide=%v type=%d status=%d id=%q stmt=%q", wideWanted, x.Type, x.Status, x.ID, stmt)
	case *tds.CapabilityPackage:
		return rx.LibDesc(x)
	}
	return ""
}

func run(c Case) {
	e, ok := corpus[c.Entry]
	if !ok {
		h.Fatal("unknown corpus entry %q", c.Entry)
	}
	h.Eval(len(e.Enc) > 1)
	if e.Origin == "ref" {
		var pkg tds.Package
		var err error
		pan, msg := hlib.Catch(func() { pkg, err = pkgcorpus.Parse(e, e.Enc) })
		kind := e.Ref.Kind()
		cls := lenClass(e)
		switch {
		case pan:
			h.Violate("C06|"+kind+"|decode-panic|"+cls, fmt.Sprintf("%s: reference encoding %x…: panic %s", e.Name, head(e.Enc), msg), c)
		case err != nil:
			h.Violate("C06|"+kind+"|decode-error|"+cls, fmt.Sprintf("%s: the library cannot decode the reference encoding (%d bytes, %x…): %v", e.Name, len(e.Enc), head(e.Enc), err), c)
		default:
			got, want := rx.LibDesc(pkg), rx.RefDesc(e.Ref)
			if got != want {
				h.Violate("C06|"+kind+"|decode-differs|"+cls, fmt.Sprintf("%s: decoded fields differ from what was encoded\n got: %s\nwant: %s", e.Name, clip(got), clip(want)), c)
			} else {
				h.Outcome("ref-decoded")
			}
		}
		return
	}
	// library-written encoding
	kind := kindOf(e.Lib)
	rewrite(e.Name, e.Lib, e.Enc)
	// (a) independent decoder for client-side packages
	if desc, err := decodeClient(e.Enc); err != nil {
		h.Violate("C06|"+kind+"|written-length-inconsistent", fmt.Sprintf("%s: independent decoder: %v (encoding %x…)", e.Name, err, head(e.Enc)), c)
		return
	} else if desc != "" {
		if want := libClientDesc(e.Lib, strings.Contains(e.Name, "-wtrue") || strings.Contains(e.Name, "wide")); want != desc {
			h.Violate("C06|"+kind+"|written-fields-differ", fmt.Sprintf("%s: independent decoder recovers\n got: %s\nwant: %s", e.Name, clip(desc), clip(want)), c)
			return
		}
		h.Outcome("client-decoded")
	}
	// (a') parameter formats: byte for byte the layout of what was set
	if e.Ref != nil {
		if want := e.Ref.Encode(); string(want) != string(e.Enc) {
			h.Violate("C06|"+kind+"|written-differs-from-layout|"+layoutClass(e.Name), fmt.Sprintf("%s: the library wrote %x, the layout of %s is %x", e.Name, head64(e.Enc), clip(e.Ref.Desc()), head64(want)), c)
			return
		}
		h.Outcome("client-layout")
	}
	// (b) read back what the library wrote
	var back tds.Package
	var err error
	consumed := -1
	pan, msg := hlib.Catch(func() {
		var ctx tds.Package
		if e.Ctx != nil {
			ctx, _ = pkgcorpus.Parse(pkgcorpus.Entry{Enc: e.Ctx}, e.Ctx)
		}
		data := e.Enc
		p, lerr := tds.LookupPackage(tds.Token(data[0]))
		if _, tokenless := p.(*tds.TokenlessPackage); tokenless || lerr != nil || reflect.TypeOf(p) != reflect.TypeOf(e.Lib) {
			// the token does not lead back to this package type: read with a fresh value of the same type
			p = reflect.New(reflect.TypeOf(e.Lib).Elem()).Interface().(tds.Package)
			if fmt.Sprintf("%T", e.Lib) == "*tds.ReturnStatusPackage" && len(data) == 4 {
				data = append([]byte{0x79}, data...) // see finding: the token is not written
				err = fmt.Errorf("WriteTo does not write the package token")
			}
		}
		if acc, ok := p.(tds.LastPkgAcceptor); ok {
			acc.LastPkg(ctx)
		}
		f := &hx.Flat{Buf: data[1:]}
		if rerr := p.ReadFrom(f); rerr != nil {
			err = rerr
		}
		consumed = f.Pos + 1
		back = p
	})
	switch {
	case pan:
		h.Violate("C06|"+kind+"|readback-panic", fmt.Sprintf("%s: reading back %x…: panic %s", e.Name, head(e.Enc), msg), c)
	case err != nil:
		h.Violate("C06|"+kind+"|readback-error", fmt.Sprintf("%s: the library cannot read back what it wrote (%x…): %v", e.Name, head(e.Enc), err), c)
	case consumed != len(e.Enc):
		h.Violate("C06|"+kind+"|readback-consumed", fmt.Sprintf("%s: wrote %d bytes, reading back consumed %d", e.Name, len(e.Enc), consumed), c)
	default:
		// "reproduces the package's serialised fields": what was read back must serialise to the same
		// bytes, and for packages whose members are all serialised the package itself must be equal
		enc2, werr := hx.Encode(back)
		if fmt.Sprintf("%T", e.Lib) == "*tds.CapabilityPackage" {
			// the order of capability types on the wire is not fixed: compare the decoded masks
			d1, _ := decodeClient(e.Enc)
			d2, _ := decodeClient(enc2)
			if werr != nil || d1 != d2 || rx.LibDesc(e.Lib) != rx.LibDesc(back) {
				h.Violate("C06|"+kind+"|readback-differs", fmt.Sprintf("%s: read back package differs: %s vs %s", e.Name, clip(rx.LibDesc(e.Lib)), clip(rx.LibDesc(back))), c)
				return
			}
			h.Outcome("lib-roundtrip")
			return
		}
		if werr != nil || string(enc2) != string(e.Enc) {
			h.Violate("C06|"+kind+"|readback-differs", fmt.Sprintf("%s: the package read back serialises differently (err %v)\nwrote: %x\nagain: %x\n read: %s", e.Name, werr, head(e.Enc), head(enc2), clip(hlib.Dump(back, "sync.Mutex"))), c)
			return
		}
		h.Outcome("lib-roundtrip")
	}
}

// layoutClass: data type of a paramfmt corpus entry (…-dt<hex>-…), so that one type never masks another
func layoutClass(name string) string {
	if i := strings.Index(name, "-dt"); i >= 0 {
		rest := name[i+1:]
		if j := strings.IndexByte(rest, '-'); j >= 0 {
			return rest[:j]
		}
	}
	return "status-bits"
}

func head64(b []byte) []byte {
	if len(b) > 64 {
		return b[:64]
	}
	return b
}

func head(b []byte) []byte {
	if len(b) > 24 {
		return b[:24]
	}
	return b
}

func clip(s string) string {
	if len(s) > 400 {
		return s[:400] + "…"
	}
	return s
}

func main() {
	h = hlib.Init("C06")
	level := 0
	if h.Thorough {
		level = 1
	}
	entries := pkgcorpus.Build(level)
	for _, e := range entries {
		corpus[e.Name] = e
	}
	var rc Case
	if h.ReplayCase(&rc) {
		if rc.Login != nil {
			runLogin(*rc.Login)
		} else if rc.Hist != nil {
			runHist(*rc.Hist)
		} else {
			run(rc)
		}
		h.ReplayReport()
	}
	for i, e := range entries {
		if !h.Mine(i) || e.Origin == "crafted" {
			continue
		}
		c := Case{Entry: e.Name}
		run(c)
		h.Sample(func() interface{} { return c })
		h.Section(e.Origin, 1)
	}
	li := 0
	loginLeg(&li)
	depth := 4
	if h.Thorough {
		depth = 5
	}
	histLeg(&li, depth)
	h.R.Extra["corpus_entries"] = len(entries)
	h.Done()
}
