// C05 — data type wire encodings match the TDS 5.0 layouts.
// Complete enumeration of the declared value grid, the real codec compared
// in both directions with the independent reference codec (ref/tdsval), plus
// the calendar helpers against an independent civil-date algorithm and
// documentation vectors.
package main

import (
	"bytes"
	"encoding/binary"
	"fmt"
	"math/big"
	"time"

	"github.com/SAP/go-dblib/asetime"
	"github.com/SAP/go-dblib/asetypes"
	"verif/harness/valgrid"
	"verif/hlib"
	"verif/ref/tdsval"
)

var h *hlib.H

func run(v valgrid.Val) {
	h.Eval(v.NonTrivial())
	dt := asetypes.DataType(v.DT)
	sig := "C05|" + v.Name() + "|"
	want, rerr := tdsval.Encode(v.DT, v.Ref(), v.Len)
	if rerr != nil {
		h.Fatal("reference cannot encode %s: %v", v, rerr)
	}
	// direction 1: library encoding == prescribed bytes
	var bs []byte
	var err error
	pan, msg := hlib.Catch(func() { bs, err = dt.Bytes(binary.LittleEndian, v.Lib(), int64(v.Len)) })
	switch {
	case pan:
		h.Violate(sig+"encode-panic|"+v.Cls, fmt.Sprintf("%s: Bytes panicked: %s", v, msg), v)
	case err != nil:
		h.Violate(sig+"encode-error|"+v.Cls, fmt.Sprintf("%s: Bytes returned %v", v, err), v)
	case (v.DT == tdsval.DECN || v.DT == tdsval.NUMN) && v.K != "nil":
		// sign byte + big-endian magnitude; the magnitude length is not fixed by the statement
		ok := len(bs) >= 1 && (bs[0] == 0 || bs[0] == 1)
		if ok {
			x := new(big.Int).SetBytes(bs[1:])
			if bs[0] == 1 {
				x.Neg(x)
			}
			ok = x.Cmp(v.Ref().(*big.Int)) == 0
		}
		if !ok {
			h.Violate(sig+"encode-differs|"+v.Cls, fmt.Sprintf("%s: library bytes %x are not sign byte + big-endian magnitude of the value (reference %x)", v, bs, want), v)
		}
	case !bytes.Equal(bs, want):
		h.Violate(sig+"encode-differs|"+v.Cls, fmt.Sprintf("%s: library bytes %x, TDS 5.0 prescribes %x", v, trunc(bs), trunc(want)), v)
	}
	// direction 2: prescribed bytes decode to the value
	var got interface{}
	pan, msg = hlib.Catch(func() { got, err = dt.GoValue(binary.LittleEndian, want) })
	switch {
	case pan:
		h.Violate(sig+"decode-panic|"+v.Cls, fmt.Sprintf("%s: GoValue(%x) panicked: %s", v, trunc(want), msg), v)
	case err != nil:
		h.Violate(sig+"decode-error|"+v.Cls, fmt.Sprintf("%s: GoValue(%x) returned %v", v, trunc(want), err), v)
	default:
		tol := valgrid.Tolerance(v)
		if tol == time.Second/300 {
			// the bytes name a tick; when the grid value IS that tick's time (not merely a time
			// inside it) the server meant exactly k/300 s: a decoder working in milliseconds may
			// lose the sub-millisecond part, nothing more, and nothing at all when k/300 s is a
			// whole number of milliseconds.
			k := (v.Ns*300 + 500000000) / 1000000000
			if tdsval.TickNanos(k) == v.Ns {
				tol = time.Millisecond
				if k%3 == 0 {
					tol = 0
				}
			}
		}
		if ok, why := valgrid.SameValue(v, got, tol); !ok {
			h.Violate(sig+"decode-differs|"+v.Cls, fmt.Sprintf("%s: conforming bytes %x decode wrongly: %s", v, trunc(want), why), v)
		} else {
			h.Outcome("ok-" + v.K)
		}
	}
}

func trunc(b []byte) []byte {
	if len(b) > 32 {
		return b[:32]
	}
	return b
}

type CalCase struct {
	Day int   `json:"day"`
	Us  int64 `json:"us"`
}

func calendar(c CalCase) {
	h.Eval(true)
	y, m, d := tdsval.CivilFromDays(c.Day)
	t := time.Date(y, time.Month(m), d, 0, 0, 0, 0, time.UTC).Add(time.Duration(c.Us) * time.Microsecond)
	days0 := c.Day - tdsval.DaysFromCivil(0, 1, 1)
	wantUs := uint64(days0)*86400000000 + uint64(c.Us)
	cls := "from-1900"
	if c.Day < tdsval.DaysFromCivil(1900, 1, 1) {
		cls = "pre-1900"
	}
	var gotUs uint64
	var back time.Time
	var dur asetime.ASEDuration
	pan, msg := hlib.Catch(func() {
		gotUs = asetime.TimeToMicroseconds(t)
		back = asetime.MicrosecondsToTime(wantUs)
		dur = asetime.DurationFromDateTime(t)
	})
	if pan {
		h.Violate("C05|calendar|panic", fmt.Sprintf("%v: %s", t, msg), c)
		return
	}
	if gotUs != wantUs {
		h.Violate("C05|calendar|TimeToMicroseconds|"+cls, fmt.Sprintf("TimeToMicroseconds(%v) = %d, proleptic Gregorian calendar gives %d", t, gotUs, wantUs), c)
	}
	if !back.Equal(t) {
		h.Violate("C05|calendar|MicrosecondsToTime|"+cls, fmt.Sprintf("MicrosecondsToTime(%d) = %v, want %v", wantUs, back, t), c)
	}
	if uint64(dur) != wantUs {
		h.Violate("C05|calendar|DurationFromDateTime|"+cls, fmt.Sprintf("DurationFromDateTime(%v) = %d, want %d", t, int64(dur), wantUs), c)
	}
	if r := asetime.MicrosecondsToTime(gotUs); !r.Equal(t) && gotUs == wantUs {
		h.Violate("C05|calendar|not-inverse|"+cls, fmt.Sprintf("MicrosecondsToTime(TimeToMicroseconds(%v)) = %v", t, r), c)
	}
	h.Outcome("calendar-ok")
}

type Vec struct {
	DT   byte   `json:"dt"`
	Hex  string `json:"hex"`
	What string `json:"what"`
}

// documentation vectors: type minima/maxima and epoch values (ASE reference manual)
func vectors() {
	type tv struct {
		dt   byte
		bs   []byte
		t    time.Time
		what string
	}
	le4 := func(v uint32) []byte { b := make([]byte, 4); binary.LittleEndian.PutUint32(b, v); return b }
	le2 := func(v uint16) []byte { b := make([]byte, 2); binary.LittleEndian.PutUint16(b, v); return b }
	le8 := func(v uint64) []byte { b := make([]byte, 8); binary.LittleEndian.PutUint64(b, v); return b }
	neg := func(v int32) uint32 { return uint32(v) }
	tvs := []tv{
		{tdsval.DATE, le4(0), time.Date(1900, 1, 1, 0, 0, 0, 0, time.UTC), "date epoch"},
		{tdsval.DATE, le4(neg(-693595)), time.Date(1, 1, 1, 0, 0, 0, 0, time.UTC), "date minimum 0001-01-01"},
		{tdsval.DATE, le4(2958463), time.Date(9999, 12, 31, 0, 0, 0, 0, time.UTC), "date maximum 9999-12-31"},
		{tdsval.DATETIME, append(le4(neg(-53690)), le4(0)...), time.Date(1753, 1, 1, 0, 0, 0, 0, time.UTC), "datetime minimum 1753-01-01"},
		{tdsval.DATETIME, append(le4(2958463), le4(25919999)...), time.Date(9999, 12, 31, 23, 59, 59, 996666667, time.UTC), "datetime maximum"},
		{tdsval.DATETIME, append(le4(neg(-1)), le4(300*3600)...), time.Date(1899, 12, 31, 1, 0, 0, 0, time.UTC), "1899-12-31 01:00 (negative day, positive time)"},
		{tdsval.SHORTDATE, append(le2(0), le2(0)...), time.Date(1900, 1, 1, 0, 0, 0, 0, time.UTC), "smalldatetime minimum"},
		{tdsval.SHORTDATE, append(le2(65535), le2(1439)...), time.Date(2079, 6, 6, 23, 59, 0, 0, time.UTC), "smalldatetime maximum 2079-06-06 23:59"},
		{tdsval.BIGDATETIMEN, le8(366 * 86400000000), time.Date(1, 1, 1, 0, 0, 0, 0, time.UTC), "bigdatetime 0001-01-01 = 366 days after 0000-01-01"},
		{tdsval.BIGDATETIMEN, le8(uint64(693961) * 86400000000), time.Date(1900, 1, 1, 0, 0, 0, 0, time.UTC), "bigdatetime 1900-01-01"},
		{tdsval.BIGTIMEN, le8(86399999999), time.Date(1, 1, 1, 23, 59, 59, 999999000, time.UTC), "bigtime maximum"},
		{tdsval.TIME, le4(25919999), time.Date(1, 1, 1, 23, 59, 59, 996666667, time.UTC), "time maximum"},
	}
	for _, x := range tvs {
		h.Eval(true)
		c := Vec{DT: x.dt, Hex: fmt.Sprintf("%x", x.bs), What: x.what}
		var got interface{}
		var err error
		pan, msg := hlib.Catch(func() { got, err = asetypes.DataType(x.dt).GoValue(binary.LittleEndian, x.bs) })
		name := tdsval.Names[x.dt]
		if pan || err != nil {
			h.Violate("C05|"+name+"|vector-decode-fails", fmt.Sprintf("%s: GoValue(%x): panic=%v %s err=%v", x.what, x.bs, pan, msg, err), c)
			continue
		}
		g, ok := got.(time.Time)
		d := g.Sub(x.t)
		if d < 0 {
			d = -d
		}
		if !ok || d >= time.Second/300 {
			h.Violate("C05|"+name+"|vector-decode-differs", fmt.Sprintf("%s: GoValue(%x) = %v, documentation says %v", x.what, x.bs, got, x.t), c)
		}
		var bs []byte
		pan, msg = hlib.Catch(func() { bs, err = asetypes.DataType(x.dt).Bytes(binary.LittleEndian, x.t, int64(len(x.bs))) })
		if pan || err != nil || !bytes.Equal(bs, x.bs) {
			h.Violate("C05|"+name+"|vector-encode-differs", fmt.Sprintf("%s: Bytes(%v) = %x (panic=%v %s err=%v), documentation says %x", x.what, x.t, bs, pan, msg, err, x.bs), c)
		}
		h.Section("vectors", 1)
	}
	// money: 1.0000 = 10000 units; high word first
	h.Eval(true)
	d, _ := asetypes.NewDecimal(20, 4)
	d.SetInt64(0x0000000100000002)
	bs, err := asetypes.MONEY.Bytes(binary.LittleEndian, d, 8)
	want := []byte{1, 0, 0, 0, 2, 0, 0, 0}
	if err != nil || !bytes.Equal(bs, want) {
		h.Violate("C05|MONEY|vector-encode-differs", fmt.Sprintf("money 0x0000000100000002 encodes to %x (err %v), want high word then low word %x", bs, err, want), Vec{DT: tdsval.MONEY, Hex: fmt.Sprintf("%x", want), What: "word order"})
	}
}

func main() {
	h = hlib.Init("C05")
	var raw struct {
		K   string `json:"k"`
		Day *int   `json:"day"`
		Us  *int64 `json:"us"`
		Hex string `json:"hex"`
	}
	if h.ReplayIn != "" {
		h.ReplayCase(&raw)
		switch {
		case raw.Hex != "":
			vectors()
		case raw.K == "" && raw.Us != nil:
			var c CalCase
			h.ReplayCase(&c)
			calendar(c)
		default:
			var v valgrid.Val
			h.ReplayCase(&v)
			run(v)
		}
		h.ReplayReport()
	}
	valgrid.Enumerate(h, func(v valgrid.Val) {
		run(v)
		h.Sample(func() interface{} { return v })
	})
	// calendar helpers: every day of years 1..9999 (midnight and a time of day)
	first, last := tdsval.DaysFromCivil(1, 1, 1), tdsval.DaysFromCivil(9999, 12, 31)
	idx := 1000000
	for start := first; start <= last; start += 50000 {
		idx++
		if !h.Mine(idx) {
			continue
		}
		for day := start; day < start+50000 && day <= last; day++ {
			calendar(CalCase{Day: day})
			calendar(CalCase{Day: day, Us: 86399999999})
			h.Section("calendar", 2)
		}
	}
	if h.Mine(0) {
		vectors()
	}
	h.Done()
}
