//go:build vrt

// shimconf — conformance of the vrt shims with the real Go primitives (the
// only "model vs implementation" gap of the framework, DESIGN.md §4).
//
//  1. RWMutex / Mutex: every valid operation sequence of 3 threads over
//     {Lock, Unlock, RLock, RUnlock} up to a depth is executed on the shim
//     (under the controlled scheduler) and on a real sync.RWMutex (real
//     goroutines); the real history of completed operations after every
//     step must be one of the histories the shim can produce.
//  2. select: a goroutine parked in a select on two channels is completed by
//     the first send (never by the second); with both ready before the select
//     either case may be chosen — the real runtime must show exactly the
//     outcomes the model produces.
//
// Run by setup.sh; not part of any property check (it uses short wall-clock
// waits to decide "blocked" on the real primitives).
package main

import (
	"fmt"
	"os"
	"sync"
	"time"
	"unsafe"

	"github.com/SAP/go-dblib/vrt"
	"github.com/SAP/go-dblib/vrt/vsync"
)

type step struct{ t, op int } // op: 0 Lock 1 Unlock 2 RLock 3 RUnlock

var opName = []string{"Lock", "Unlock", "RLock", "RUnlock"}

type locker interface {
	Lock()
	Unlock()
	RLock()
	RUnlock()
}

func do(m locker, op int) {
	switch op {
	case 0:
		m.Lock()
	case 1:
		m.Unlock()
	case 2:
		m.RLock()
	case 3:
		m.RUnlock()
	}
}

// abstract bookkeeping to generate only valid sequences: who holds what, who is blocked
type book struct {
	w       int    // thread holding the write lock, -1
	r       [3]int // read holds per thread
	blocked [3]bool
}

// runReal executes seq on a real RWMutex; returns after each step the completion vector
func runReal(seq []step) [][]bool {
	var m sync.RWMutex
	cmd := make([]chan int, 3)
	done := make(chan int, 64)
	for t := 0; t < 3; t++ {
		cmd[t] = make(chan int, 8)
		go func(t int) {
			for op := range cmd[t] {
				do(&m, op)
				done <- t
			}
		}(t)
	}
	completed := make([]bool, len(seq))
	pending := map[int]int{} // thread -> step index in flight
	var out [][]bool
	for i, s := range seq {
		pending[s.t] = i
		cmd[s.t] <- s.op
		// collect completions until quiet for 3 ms
		for {
			select {
			case t := <-done:
				completed[pending[t]] = true
				delete(pending, t)
				continue
			case <-time.After(3 * time.Millisecond):
			}
			break
		}
		out = append(out, append([]bool{}, completed...))
	}
	// release everything so the goroutines end: not needed, they are leaked per sequence (few thousand)
	return out
}

// runShim executes seq on the shim under ALL schedules and returns the set of
// possible completion histories (which waiter acquires a released lock is a
// scheduling choice in Go as in the shim).
func runShim(seq []step) (map[string]bool, string) {
	set := map[string]bool{}
	var out [][]bool
	fail := ""
	vrt.Explore(vrt.ExploreCfg{Base: vrt.Config{Preempt: true}, Bound: -1, MaxExecs: 20000, Check: func(x *vrt.Exec) (string, string) {
		if x.Failure != nil {
			fail = x.Failure.String()
		}
		set[fmt.Sprint(out)] = true
		return "", ""
	}}, func() {
		out = nil
		var m vsync.RWMutex
		completed := make([]bool, len(seq))
		cmd := make([]chan int, 3)
		cur := make([]int, 3)
		for t := 0; t < 3; t++ {
			cmd[t] = make(chan int, 8)
			t := t
			vrt.GoNamed(fmt.Sprintf("w%d", t), func() {
				for {
					op, ok := vrt.Recv2(cmd[t])
					if !ok {
						return
					}
					idx := cur[t]
					do(&m, op)
					completed[idx] = true
				}
			})
		}
		for i, s := range seq {
			cur[s.t] = i
			vrt.BeforeSend(cmd[s.t])
			cmd[s.t] <- s.op
			vrt.Settle()
			out = append(out, append([]bool{}, completed...))
		}
		vrt.Finish()
	})
	return set, fail
}

func main() {
	depth := 4
	if len(os.Args) > 1 && os.Args[1] == "-deep" {
		depth = 5
	}
	bad := 0
	n := 0
	var rec func(seq []step, b book)
	rec = func(seq []step, b book) {
		if len(seq) > 0 {
			n++
			real := runReal(seq)
			shim, fail := runShim(seq)
			if fail != "" || !shim[fmt.Sprint(real)] {
				bad++
				if bad < 10 {
					fmt.Printf("SHIM MISMATCH for %s\n real: %v\n shim: %v %s\n", show(seq), real, shim, fail)
				}
			}
		}
		if len(seq) == depth {
			return
		}
		for t := 0; t < 3; t++ {
			if b.blocked[t] {
				continue
			}
			for op := 0; op < 4; op++ {
				nb := b
				switch op {
				case 0: // Lock
					if nb.w == t || nb.r[t] > 0 {
						continue // self-deadlock: not a valid program
					}
					nb.blocked[t] = true // resolved by simulation below
				case 1:
					if nb.w != t {
						continue
					}
				case 2:
					if nb.w == t || nb.r[t] > 0 {
						continue // recursive read locking is not valid either
					}
					nb.blocked[t] = true
				case 3:
					if nb.r[t] == 0 {
						continue
					}
				}
				ns := append(append([]step{}, seq...), step{t, op})
				// derive the bookkeeping from the real run of the extended sequence
				real := runReal(ns)
				last := real[len(real)-1]
				nb = book{w: -1}
				// replay completions in issue order to know who holds what / is blocked
				for i, s := range ns {
					if !last[i] {
						nb.blocked[s.t] = true
						continue
					}
					switch s.op {
					case 0:
						nb.w = s.t
					case 1:
						nb.w = -1
					case 2:
						nb.r[s.t]++
					case 3:
						nb.r[s.t]--
					}
				}
				rec(ns, nb)
			}
		}
	}
	rec(nil, book{w: -1})
	fmt.Printf("shimconf: %d RWMutex sequences up to depth %d compared, %d mismatches\n", n, depth, bad)

	// ---- select: parked select is completed by the first operation
	outcomes := map[string]int{}
	for i := 0; i < 2000; i++ {
		a, b := make(chan int, 1), make(chan int, 1)
		res := make(chan string, 1)
		go func() {
			select {
			case <-a:
				res <- "a"
			case <-b:
				res <- "b"
			}
		}()
		time.Sleep(50 * time.Microsecond) // let it park (if it has not, both may be ready: then either is legal, see below)
		a <- 1
		b <- 1
		outcomes[<-res]++
	}
	both := map[string]int{}
	for i := 0; i < 2000; i++ {
		a, b := make(chan int, 1), make(chan int, 1)
		a <- 1
		b <- 1
		select {
		case <-a:
			both["a"]++
		case <-b:
			both["b"]++
		}
	}
	fmt.Printf("shimconf: parked select, send a then b: %v (model: a, or either if not yet parked); both ready before select: %v (model: either)\n", outcomes, both)
	if outcomes["b"] > outcomes["a"] || both["a"] == 0 || both["b"] == 0 {
		bad++
		fmt.Println("SHIM MISMATCH: select model")
	}
	bad += hbSelfTest()
	bad += timerSelfTest()
	if bad > 0 {
		os.Exit(1)
	}
}

// hbSelfTest: the happens-before detector must report an unsynchronised
// conflicting pair in EVERY schedule and must stay silent when the accesses
// are ordered by a mutex, a channel, an atomic, fork or WaitGroup.
func hbSelfTest() int {
	type tc struct {
		name string
		racy bool
		body func(x *int)
	}
	acc := func(x *int, w bool, pos string) { vrt.Acc(unsafe.Pointer(x), 8, w, pos) }
	cases := []tc{
		{"two unsynchronised writers", true, func(x *int) {
			vrt.Go(func() { acc(x, true, "w1"); *x = 1 })
			vrt.Go(func() { acc(x, true, "w2"); *x = 2 })
		}},
		{"unsynchronised reader and writer", true, func(x *int) {
			vrt.Go(func() { acc(x, true, "w"); *x = 1 })
			vrt.Go(func() { acc(x, false, "r"); _ = *x })
		}},
		{"write after fork vs child read", true, func(x *int) {
			vrt.Go(func() { acc(x, false, "child-r"); _ = *x })
			acc(x, true, "parent-w")
			*x = 1
		}},
		{"write before fork, child reads", false, func(x *int) {
			acc(x, true, "parent-w")
			*x = 1
			vrt.Go(func() { acc(x, false, "child-r"); _ = *x })
		}},
		{"mutex", false, func(x *int) {
			var m vsync.Mutex
			for i := 0; i < 2; i++ {
				vrt.Go(func() { m.Lock(); acc(x, true, "w"); *x++; m.Unlock() })
			}
		}},
		{"rwmutex readers and a writer", false, func(x *int) {
			var m vsync.RWMutex
			vrt.Go(func() { m.Lock(); acc(x, true, "w"); *x = 1; m.Unlock() })
			for i := 0; i < 2; i++ {
				vrt.Go(func() { m.RLock(); acc(x, false, "r"); _ = *x; m.RUnlock() })
			}
		}},
		{"channel hand-off", false, func(x *int) {
			ch := make(chan int, 1)
			vrt.Go(func() { acc(x, true, "w"); *x = 1; vrt.BeforeSend(ch); ch <- 1 })
			vrt.Go(func() { vrt.Recv(ch); acc(x, false, "r"); _ = *x })
		}},
		{"channel, but access before the send is unordered with a second writer", true, func(x *int) {
			ch := make(chan int, 1)
			vrt.Go(func() { acc(x, true, "w1"); *x = 1; vrt.BeforeSend(ch); ch <- 1 })
			vrt.Go(func() { acc(x, true, "w2"); *x = 2; vrt.Recv(ch) })
		}},
		{"waitgroup", false, func(x *int) {
			var wg vsync.WaitGroup
			wg.Add(1)
			vrt.Go(func() { acc(x, true, "w"); *x = 1; wg.Done() })
			wg.Wait()
			acc(x, false, "r")
			_ = *x
		}},
	}
	bad := 0
	for _, c := range cases {
		with, without, execs := 0, 0, 0
		vrt.Explore(vrt.ExploreCfg{Base: vrt.Config{Preempt: true, Races: true}, Bound: -1, MaxExecs: 50000, Check: func(x *vrt.Exec) (string, string) {
			execs++
			if len(x.Races) > 0 {
				with++
			} else {
				without++
			}
			return "", ""
		}}, func() {
			x := new(int)
			c.body(x)
		})
		ok := (c.racy && without == 0) || (!c.racy && with == 0)
		fmt.Printf("shimconf: hb detector, %-70s racy=%v: %d schedules, race reported in %d\n", c.name, c.racy, execs, with)
		if !ok {
			bad++
			fmt.Println("SHIM MISMATCH: happens-before detector")
		}
	}
	return bad
}

func show(seq []step) string {
	s := ""
	for _, x := range seq {
		s += fmt.Sprintf("T%d.%s ", x.t, opName[x.op])
	}
	return s
}
