//go:build vrt

package main

import (
	"errors"
	"fmt"
	"io"
	"sync"
	"time"

	"github.com/SAP/go-dblib/vrt"
	"github.com/SAP/go-dblib/vrt/vsync"
)

// timerSelfTest: the virtual timers, the rendezvous channels and the condition
// variable behave as the real primitives do in the corresponding real program.
func timerSelfTest() int {
	bad := 0
	expect := func(what string, ok bool) {
		if !ok {
			bad++
			fmt.Println("SHIM MISMATCH:", what)
		}
	}
	// NewTimer / After deliver at the due time, in due order
	var at1, at2 time.Duration
	x := vrt.Run(vrt.Config{}, func() {
		start := vrt.VNow()
		t2 := vrt.NewTimer(7 * time.Second)
		c1 := vrt.After(3 * time.Second)
		vrt.Recv(c1)
		at1 = vrt.VNow().Sub(start)
		vrt.Recv(t2.C)
		at2 = vrt.VNow().Sub(start)
	})
	expect(fmt.Sprintf("timers fire at 3s and 7s (got %v, %v, failure %v)", at1, at2, x.Failure), x.Failure == nil && at1 == 3*time.Second && at2 == 7*time.Second)
	// Stop before the due time: reports true, nothing is delivered; AfterFunc runs as a thread
	stopped, delivered, ran := false, false, false
	x = vrt.Run(vrt.Config{}, func() {
		tm := vrt.NewTimer(5 * time.Second)
		vrt.AfterFunc(2*time.Second, func() { ran = true })
		stopped = tm.Stop()
		vrt.Sleep(10 * time.Second)
		select {
		case <-tm.C:
			delivered = true
		default:
		}
	})
	expect(fmt.Sprintf("Stop/AfterFunc (stopped=%v delivered=%v ran=%v failure %v)", stopped, delivered, ran, x.Failure), x.Failure == nil && stopped && !delivered && ran)
	// Ticker: three ticks one second apart
	var ticks []time.Duration
	x = vrt.Run(vrt.Config{}, func() {
		start := vrt.VNow()
		tk := vrt.NewTicker(time.Second)
		for i := 0; i < 3; i++ {
			vrt.Recv(tk.C)
			ticks = append(ticks, vrt.VNow().Sub(start))
		}
		tk.Stop()
	})
	expect(fmt.Sprintf("ticker (got %v, failure %v)", ticks, x.Failure), x.Failure == nil && len(ticks) == 3 && ticks[0] == time.Second && ticks[2] == 3*time.Second)
	// rendezvous channel: the sender does not get past its send before a receiver is there
	order := ""
	st := vrt.Explore(vrt.ExploreCfg{Base: vrt.Config{Preempt: true}, Bound: -1, Check: func(x *vrt.Exec) (string, string) {
		if x.Failure != nil {
			return "failure", x.Failure.String()
		}
		if order != "receiver-arrived,sent,received" {
			return "order", order
		}
		return "", ""
	}}, func() {
		order = ""
		ch := vrt.MakeChan(0, func(n int) chan int { return make(chan int, n) })
		vrt.GoNamed("sender", func() {
			vrt.BeforeSend(ch)
			ch <- 1
			order += ",sent"
		})
		vrt.Sleep(time.Second) // the sender is parked in its send all that time
		order += "receiver-arrived"
		v := vrt.Recv(ch)
		vrt.Sleep(time.Second)
		if v == 1 {
			order += ",received"
		}
	})
	expect(fmt.Sprintf("rendezvous channel (%d schedules, %d violations)", st.Execs, st.Violations), st.Violations == 0 && st.Execs > 0)
	// condition variable: a waiter that checks its condition under the lock is always woken
	got := 0
	st = vrt.Explore(vrt.ExploreCfg{Base: vrt.Config{Preempt: true}, Bound: -1, Check: func(x *vrt.Exec) (string, string) {
		if x.Failure != nil {
			return "failure", x.Failure.String()
		}
		if got != 2 {
			return "lost-wakeup", fmt.Sprint(got)
		}
		return "", ""
	}}, func() {
		got = 0
		var mu vsync.Mutex
		cond := vsync.NewCond(&mu)
		ready := 0
		done := make(chan int, 2)
		for i := 0; i < 2; i++ {
			vrt.GoNamed("waiter", func() {
				mu.Lock()
				for ready == 0 {
					cond.Wait()
				}
				ready--
				mu.Unlock()
				vrt.BeforeSend(done)
				done <- 1
			})
		}
		mu.Lock()
		ready = 2
		cond.Broadcast()
		mu.Unlock()
		got += vrt.Recv(done)
		got += vrt.Recv(done)
	})
	expect(fmt.Sprintf("condition variable (%d schedules, %d violations)", st.Execs, st.Violations), st.Violations == 0 && st.Execs > 1)
	// fan-out / fan-in over a rendezvous channel closed by a WaitGroup waiter: nothing is lost
	sum := 0
	st = vrt.Explore(vrt.ExploreCfg{Base: vrt.Config{Preempt: true}, Bound: 2, Check: func(x *vrt.Exec) (string, string) {
		if x.Failure != nil {
			return "failure", x.Failure.String()
		}
		if sum != 1+2+3+4+5 {
			return "lost-value", fmt.Sprint(sum)
		}
		return "", ""
	}}, func() {
		sum = 0
		out := vrt.MakeChan(0, func(n int) chan int { return make(chan int, n) })
		permits := vrt.MakeChan(2, func(n int) chan struct{} { return make(chan struct{}, n) })
		var wg vsync.WaitGroup
		wg.Add(5)
		for i := 1; i <= 5; i++ {
			i := i
			vrt.GoNamed("renderer", func() {
				defer wg.Done()
				vrt.BeforeSend(permits)
				permits <- struct{}{}
				defer func() { vrt.Recv(permits) }()
				vrt.BeforeSend(out)
				out <- i
			})
		}
		vrt.GoNamed("closer", func() {
			wg.Wait()
			vrt.Close(out)
		})
		for {
			v, ok := vrt.Recv2(out)
			if !ok {
				break
			}
			sum += v
		}
	})
	expect(fmt.Sprintf("fan-in over a rendezvous channel (%d schedules, %d violations)", st.Execs, st.Violations), st.Violations == 0 && st.Execs > 1)
	// io.Pipe: the same program over the real pipe (free running) and over the shim (every schedule)
	type rw struct {
		r interface {
			io.Reader
			CloseWithError(error) error
		}
		w interface {
			io.Writer
			CloseWithError(error) error
		}
	}
	errBoom := errors.New("boom")
	pipeProg := func(mk func() rw, spawn func(func()), join func(), variant int) string {
		p := mk()
		var wres string
		spawn(func() {
			n, err := p.w.Write([]byte("hello"))
			wres = fmt.Sprintf("w1=%d,%v", n, err)
			if variant == 0 {
				p.w.CloseWithError(errBoom)
				n, err = p.w.Write([]byte("x"))
				wres += fmt.Sprintf(" w2=%d,%v", n, err)
			}
		})
		var got []byte
		var rerr error
		buf := make([]byte, 2)
		for i := 0; ; i++ {
			if variant == 1 && i == 2 {
				p.r.CloseWithError(nil) // the writer is left with one byte unread
				_, rerr = p.r.Read(buf)
				break
			}
			n, err := p.r.Read(buf)
			got = append(got, buf[:n]...)
			if err != nil {
				rerr = err
				break
			}
		}
		join()
		return fmt.Sprintf("read %q err=%v; %s", got, rerr, wres)
	}
	for variant := 0; variant < 2; variant++ {
		var wg sync.WaitGroup
		want := pipeProg(func() rw { r, w := io.Pipe(); return rw{r, w} }, func(f func()) { wg.Add(1); go func() { defer wg.Done(); f() }() }, wg.Wait, variant)
		gotOut := ""
		st = vrt.Explore(vrt.ExploreCfg{Base: vrt.Config{Preempt: true}, Bound: -1, Check: func(x *vrt.Exec) (string, string) {
			if x.Failure != nil {
				return "failure", x.Failure.String()
			}
			if gotOut != want {
				return "differs", gotOut
			}
			return "", ""
		}}, func() {
			var vwg vsync.WaitGroup
			gotOut = pipeProg(func() rw { r, w := vrt.IOPipe(); return rw{r, w} }, func(f func()) { vwg.Add(1); vrt.GoNamed("writer", func() { defer vwg.Done(); f() }) }, vwg.Wait, variant)
		})
		expect(fmt.Sprintf("io.Pipe variant %d: real %q (%d schedules, %d violations)", variant, want, st.Execs, st.Violations), st.Violations == 0 && st.Execs > 1)
	}
	fmt.Printf("shimconf: virtual timers, ticker, AfterFunc, rendezvous channel, condition variable: %d mismatches\n", bad)
	return bad
}
