//go:build vrt

// C11 — server messages and environment changes are surfaced exactly once.
// Every placement of up to two special packages (EED info / non-info,
// ENVCHANGE with 0..3 members) in a response, every 1-cut (and for single
// specials every 2-cut) packetisation, hook registration before and between
// responses and all callback outcomes; each case is one controlled execution
// of the real channel; the ordering clause is additionally explored under
// preemption.
package main

import (
	"fmt"
	"strconv"
	"strings"

	"github.com/SAP/go-dblib/vrt"
	"verif/harness/rx"
	"verif/hlib"
	"verif/ref/tdspkg"
)

type Case struct {
	Specials []int      `json:"specials"` // kinds of the special packages
	Pos      []int      `json:"pos"`      // position (0..3) of each special among the 3 base packages
	Cuts     []int      `json:"cuts,omitempty"`
	Beh      string     `json:"beh"`
	J        int        `json:"j"`
	Hooks    rx.HookCfg `json:"hooks"`
	Two      bool       `json:"two,omitempty"` // run the response twice (second round after hook registration "between")
	Preempt  int        `json:"preempt,omitempty"`
	Choices  []int      `json:"choices,omitempty"`
}

var h *hlib.H

func eed(nr uint32, status uint8) tdspkg.EED {
	return tdspkg.EED{MsgNumber: nr, State: 1, Class: 16, SQLState: []byte("ZZZZZ"), Status: status, Msg: fmt.Sprintf("message %d", nr), Server: "srv", Line: 1}
}

var specialKinds = []func() tdspkg.Pkg{
	func() tdspkg.Pkg { return eed(100, 2) },                                                                                  // 0 informational
	func() tdspkg.Pkg { return eed(201, 0) },                                                                                  // 1 error a
	func() tdspkg.Pkg { return eed(202, 1) },                                                                                  // 2 error b ("more follow" status)
	func() tdspkg.Pkg { return tdspkg.EnvChange{} },                                                                           // 3 no members
	func() tdspkg.Pkg { return tdspkg.EnvChange{Members: []tdspkg.EnvMember{{Type: 1, New: "db2", Old: "db1"}}} },            // 4
	func() tdspkg.Pkg { return tdspkg.EnvChange{Members: []tdspkg.EnvMember{{Type: 4, New: "1024", Old: "512"}, {Type: 2, New: "french", Old: ""}}} }, // 5
	func() tdspkg.Pkg {
		return tdspkg.EnvChange{Members: []tdspkg.EnvMember{{Type: 3, New: "utf8", Old: "iso_1"}, {Type: 1, New: "", Old: "db2"}, {Type: 4, New: "2048", Old: "1024"}}}
	}, // 6
	func() tdspkg.Pkg { return eed(203, 3) }, // 7 informational + more-follow bits
}

func build(c Case) rx.Response {
	base := []tdspkg.Pkg{tdspkg.ReturnStatus{Value: 1}, tdspkg.Msg{Status: 0, ID: 13}, tdspkg.Done{Token: tdspkg.TokDone, Status: 0x10, Count: 1}}
	var pk []tdspkg.Pkg
	for p := 0; p <= 3; p++ {
		for i, k := range c.Specials {
			if c.Pos[i] == p {
				pk = append(pk, specialKinds[k]())
			}
		}
		if p < 3 {
			pk = append(pk, base[p])
		}
	}
	return rx.Response{Name: "r", Pkgs: pk}
}

func check(c Case, r rx.Response, ri int, ro rx.RoundObs, nEED, nEnv int, psize int) (sig, det string) {
	// expected events
	var eeds []string  // non-info EED numbers in arrival order
	var envs []string  // env members in arrival order
	wantSize := 0
	for _, p := range r.Pkgs {
		switch x := p.(type) {
		case tdspkg.EED:
			if x.Status&0x2 == 0 {
				eeds = append(eeds, fmt.Sprintf("nr=%d", x.MsgNumber))
			}
		case tdspkg.EnvChange:
			for _, m := range x.Members {
				envs = append(envs, fmt.Sprintf("(%d %q->%q)", m.Type, m.Old, m.New))
				if m.Type == 4 {
					wantSize, _ = strconv.Atoi(m.New)
				}
			}
		}
	}
	perHook := map[string][]string{}
	for _, l := range ro.Log {
		if strings.HasPrefix(l, "eedhook") || strings.HasPrefix(l, "envhook") {
			f := strings.SplitN(l, " ", 2)
			perHook[f[0]] = append(perHook[f[0]], f[1])
		}
	}
	gens := []int{0}
	if ri == 1 {
		gens = []int{0, 1}
	}
	for _, g := range gens {
		ne, nv := c.Hooks.EED0, c.Hooks.Env0
		if g == 1 {
			ne, nv = c.Hooks.EED1, c.Hooks.Env1
		}
		for i := 0; i < ne; i++ {
			id := fmt.Sprintf("eedhook%d.%d", g, i)
			if strings.Join(perHook[id], ";") != strings.Join(eeds, ";") {
				kind := "missed-or-duplicated"
				if len(perHook[id]) > len(eeds) {
					kind = "called-more-than-once"
				} else if len(perHook[id]) < len(eeds) {
					kind = "not-called"
				}
				return "C11|eed-hook|" + kind, fmt.Sprintf("hook %s received %v, the response carries the non-informational messages %v", id, perHook[id], eeds)
			}
			delete(perHook, id)
		}
		for i := 0; i < nv; i++ {
			id := fmt.Sprintf("envhook%d.%d", g, i)
			if strings.Join(perHook[id], ";") != strings.Join(envs, ";") {
				kind := "missed-or-duplicated"
				if len(perHook[id]) > len(envs) {
					kind = "called-more-than-once"
				} else if len(perHook[id]) < len(envs) {
					kind = "not-called"
				}
				return "C11|env-hook|" + kind, fmt.Sprintf("hook %s received %v, the response carries the environment changes %v", id, perHook[id], envs)
			}
			delete(perHook, id)
		}
	}
	for id, ev := range perHook {
		return "C11|hook|unexpected-call", fmt.Sprintf("hook %s was called (%v) although it was not registered for this round", id, ev)
	}
	// ordering: a message's hook entries precede the consumer's receipt of every later package of the response
	idxOf := map[string]int{} // desc -> arrival index
	for i, p := range r.Pkgs {
		idxOf[rx.RefDesc(p)] = i
	}
	for li, l := range ro.Log {
		if !strings.HasPrefix(l, "consumer ") {
			continue
		}
		d := strings.TrimPrefix(l, "consumer ")
		k, known := idxOf[d]
		if !known {
			k = len(r.Pkgs) // synthetic final DONE: after everything
		}
		for i, p := range r.Pkgs {
			e, ok := p.(tdspkg.EED)
			if !ok || e.Status&0x2 != 0 || i >= k {
				continue
			}
			want := fmt.Sprintf("nr=%d", e.MsgNumber)
			found := 0
			for _, b := range ro.Log[:li] {
				if strings.HasPrefix(b, "eedhook") && strings.HasSuffix(b, want) {
					found++
				}
			}
			nh := c.Hooks.EED0
			if ri == 1 {
				nh += c.Hooks.EED1
			}
			if found < nh {
				return "C11|ordering|package-before-hook", fmt.Sprintf("the consumer received %q before all %d hooks were told about the earlier message %s; log: %v", d, nh, want, ro.Log)
			}
		}
	}
	// neither environment changes nor informational messages are delivered
	for _, s := range ro.Seen {
		if strings.HasPrefix(s, "ENVCHANGE") || strings.HasPrefix(s, "*tds.EnvChangePackage") {
			return "C11|delivered|envchange", "an environment change was delivered as a package: " + s
		}
		if strings.HasPrefix(s, "EED ") && (strings.Contains(s, "status=0x2 ") || strings.Contains(s, "status=0x3 ")) {
			return "C11|delivered|info-eed", "an informational message was delivered as a package: " + s
		}
	}
	// callback failure: error matches and carries the messages received so far
	if (c.Beh == "until-err" || c.Beh == "until-errw") && ro.Ret != "" {
		var ne []int // arrival index of non-special packages
		for i, p := range r.Pkgs {
			switch x := p.(type) {
			case tdspkg.EnvChange:
			case tdspkg.EED:
				_ = x
			default:
				ne = append(ne, i)
			}
		}
		if c.J < len(ne) {
			if !ro.ErrIs {
				return "C11|callback-error|not-matching", fmt.Sprintf("callback failed at package %d; the returned error (%s) does not match the callback's error", c.J, ro.Ret)
			}
			var before []string
			for i, p := range r.Pkgs {
				if e, ok := p.(tdspkg.EED); ok && e.Status&0x2 == 0 && i < ne[c.J] {
					before = append(before, fmt.Sprintf("nr=%d", e.MsgNumber))
				}
			}
			got := ro.EEDInErr
			if len(got) < len(before) || strings.Join(got[:len(before)], ";") != strings.Join(before, ";") {
				return "C11|callback-error|messages-missing", fmt.Sprintf("callback failed at package %d after the messages %v had been received; the returned error carries %v", c.J, before, got)
			}
			sent := map[string]int{}
			for _, e := range eeds {
				sent[e]++
			}
			for _, g := range got {
				sent[g]--
				if sent[g] < 0 {
					return "C11|callback-error|message-duplicated", fmt.Sprintf("the returned error carries %v, the response contains %v", got, eeds)
				}
			}
		}
	}
	if wantSize != 0 && psize != wantSize {
		return "C11|packet-size-not-applied", fmt.Sprintf("ENVCHANGE(PACKSIZE) announced %d, PacketSize() is %d", wantSize, psize)
	}
	if wantSize == 0 && ri == 0 && psize != 512 {
		return "C11|packet-size-changed", fmt.Sprintf("no PACKSIZE change was sent, PacketSize() is %d", psize)
	}
	return "", ""
}

func execute(c Case, cfg vrt.Config) (sig, det string, x *vrt.Exec) {
	r := build(c)
	corpus := map[string]rx.Response{"r": r}
	rounds := []rx.Round{{Resp: "r", Pack: -1, Beh: c.Beh, J: c.J}}
	if c.Two {
		rounds = append(rounds, rounds[0])
	}
	customCuts = c.Cuts
	obs, o, x := rx.RunRoundsCuts(cfg, corpus, rounds, c.Hooks, c.Cuts)
	if x.Diverged != "" {
		h.Fatal("diverged: %s", x.Diverged)
	}
	if o.Setup != "" {
		return "C11|setup", o.Setup, x
	}
	if len(obs) != len(rounds) {
		return "C11|round-not-completed", o.Failure, x
	}
	for ri, ro := range obs {
		if strings.Contains(ro.Ret, "deadline") {
			return "C11|no-final-done", fmt.Sprintf("round %d: %s; seen %v", ri, ro.Ret, ro.Seen), x
		}
		if s, d := check(c, r, ri, ro, 0, 0, o.PacketSize); s != "" {
			return s, fmt.Sprintf("round %d: %s", ri, d), x
		}
	}
	if o.Failure != "" {
		return "C11|" + strings.SplitN(o.Failure, ":", 2)[0], o.Failure, x
	}
	return "", "", x
}

var customCuts []int

func describe(c Case) string {
	var s []string
	for _, p := range build(c).Pkgs {
		d := p.Desc()
		if len(d) > 40 {
			d = d[:40]
		}
		s = append(s, d)
	}
	return fmt.Sprintf("response [%s] cuts=%v behaviour=%s@%d hooks=%+v two-rounds=%v", strings.Join(s, " | "), c.Cuts, c.Beh, c.J, c.Hooks, c.Two)
}

func run(c Case) {
	sig, det, x := execute(c, vrt.Config{Choices: c.Choices, Preempt: len(c.Choices) > 0})
	h.Eval(len(c.Specials) > 0)
	h.State()
	h.AddTransitions(int64(x.Steps))
	h.Trace()
	if sig != "" {
		h.Violate(sig, describe(c)+": "+det, c)
		h.Outcome("violation")
		return
	}
	h.Outcome("ok-" + c.Beh)
}


// explore runs the case under all schedules with at most `bound` deviations.
func explore(c Case, bound int) {
	r := build(c)
	corpus := map[string]rx.Response{"r": r}
	rounds := []rx.Round{{Resp: "r", Pack: -1, Beh: c.Beh, J: c.J}}
	var obs []rx.RoundObs
	var o rx.Obs
	body := func() {}
	_ = body
	st := vrt.ExploreFn(vrt.ExploreCfg{Base: vrt.Config{Preempt: true}, Bound: bound, Deadline: h.Deadline(), Shard: 0, NShards: 1,
		Check: func(x *vrt.Exec) (string, string) {
			if x.Failure != nil {
				return "C11|" + x.Failure.Kind, x.Failure.String()
			}
			if o.Setup != "" || len(obs) != 1 {
				return "C11|round-not-completed", o.Setup + o.Failure
			}
			if strings.Contains(obs[0].Ret, "deadline") {
				return "C11|no-final-done", obs[0].Ret
			}
			return check(c, r, 0, obs[0], 0, 0, o.PacketSize)
		},
		OnViolation: func(sig, det string, choices []int, x *vrt.Exec) {
			cc := c
			cc.Choices = choices
			h.Violate(sig, describe(c)+fmt.Sprintf(" schedule=%v: ", choices)+det, cc)
		}}, func(cfg vrt.Config) *vrt.Exec {
		var x *vrt.Exec
		obs, o, x = rx.RunRoundsCuts(cfg, corpus, rounds, c.Hooks, c.Cuts)
		return x
	})
	if st.Diverged != "" {
		h.Fatal("diverged: %s", st.Diverged)
	}
	if st.Capped != "" {
		h.Cap("schedule exploration: " + st.Capped)
	}
	h.EvalN(st.Execs, st.Execs)
	h.AddStates(st.Execs)
	h.AddTransitions(st.Steps)
	h.AddTraces(st.Execs)
	h.Section("schedules", st.Execs)
}

func main() {
	h = hlib.Init("C11")
	var rc Case
	if h.ReplayCase(&rc) {
		run(rc)
		h.ReplayReport()
	}
	idx := 0
	two := rx.HookCfg{EED0: 2, Env0: 2}
	nk := len(specialKinds)
	// sweep A: placements x packetisations, two hooks of each kind, NextPackage loop
	for k1 := 0; k1 < nk; k1++ {
		for p1 := 0; p1 <= 3; p1++ {
			idx++
			if h.Mine(idx) {
				c := Case{Specials: []int{k1}, Pos: []int{p1}, Beh: "next", Hooks: two}
				n := len(build(c).Bytes())
				run(c)
				for a := 1; a < n; a++ {
					c.Cuts = []int{a}
					run(c)
					h.Sample(func() interface{} { return c })
					h.Section("single-special-1cut", 1)
					for b := a + 1; b < n; b++ {
						c.Cuts = []int{a, b}
						run(c)
						h.Section("single-special-2cuts", 1)
					}
				}
			}
			for k2 := 0; k2 < nk; k2++ {
				for p2 := p1; p2 <= 3; p2++ {
					idx++
					if !h.Mine(idx) {
						continue
					}
					if h.Expired("placement sweep cut short") {
						break
					}
					c := Case{Specials: []int{k1, k2}, Pos: []int{p1, p2}, Beh: "next", Hooks: two}
					n := len(build(c).Bytes())
					run(c)
					for a := 1; a < n; a++ {
						c.Cuts = []int{a}
						run(c)
						h.Section("two-specials-1cut", 1)
					}
					// sweep B: callback outcomes, one packet and one package per packet
					for _, beh := range []string{"until-err", "until-errw", "until-true", "until-eof", "nil-callback"} {
						for j := 0; j < 3; j++ {
							if beh == "nil-callback" && j > 0 {
								continue
							}
							for _, cuts := range [][]int{nil, perPackageCuts(build(c))} {
								run(Case{Specials: c.Specials, Pos: c.Pos, Beh: beh, J: j, Hooks: two, Cuts: cuts})
								h.Section("callback-outcomes", 1)
							}
						}
					}
				}
			}
		}
	}
	// sweep C: hook registration before and between responses
	for e0 := 0; e0 <= 2; e0++ {
		for v0 := 0; v0 <= 2; v0++ {
			for e1 := 0; e1 <= 2; e1++ {
				for v1 := 0; v1 <= 2; v1++ {
					idx++
					if !h.Mine(idx) {
						continue
					}
					for _, sp := range [][2]int{{1, 5}, {2, 6}, {1, 2}, {0, 4}} {
						for _, cuts := range [][]int{nil, {5}, {20}} {
							c := Case{Specials: sp[:], Pos: []int{0, 2}, Beh: "next", Hooks: rx.HookCfg{EED0: e0, Env0: v0, EED1: e1, Env1: v1}, Two: true, Cuts: cuts}
							run(c)
							h.Sample(func() interface{} { return c })
							h.Section("hook-registration", 1)
							if cuts == nil {
								c.Hooks.Shared = true // registered through slices the caller goes on using
								run(c)
								h.Section("hook-registration-shared-slices", 1)
							}
						}
					}
				}
			}
		}
	}
	// sweep D: ordering under preemption (reader vs consumer)
	bound := 1
	if h.Thorough {
		bound = 2
	}
	for k1 := 1; k1 <= 2; k1++ {
		for p1 := 0; p1 <= 2; p1++ {
			for _, cuts := range [][]int{nil, {12}, {30}} {
				idx++
				if !h.Mine(idx) {
					continue
				}
				explore(Case{Specials: []int{k1, 5}, Pos: []int{p1, p1}, Beh: "next", Hooks: rx.HookCfg{EED0: 2, Env0: 1}, Cuts: cuts}, bound)
			}
		}
	}
	h.R.Extra["preemption_bound_ordering"] = bound
	h.Done()
}

func perPackageCuts(r rx.Response) []int {
	var cuts []int
	off := 0
	for _, p := range r.Pkgs[:len(r.Pkgs)-1] {
		off += len(p.Encode())
		cuts = append(cuts, off)
	}
	return cuts
}
