//go:build vrt

// C08 — login succeeds exactly when the server accepted it.
// Exhaustive single-edit mutation of the valid reply scripts of both flows
// (delete / duplicate / swap / replace any package, alter any field over its
// boundary set), all packetisations, key sizes and nonce lengths; each case
// is one controlled execution of the real Channel.Login against a scripted
// peer with virtual time. Oracle: three-valued reference acceptor.
package main

import (
	"encoding/json"
	"fmt"
	"strings"
	"time"

	"verif/harness/lg"
	"verif/harness/rx"
	"verif/hlib"
	"verif/ref/tdspkg"
	"verif/ref/tdsval"
)

// Edit describes how the valid script is altered.
type Edit struct {
	Op    string `json:"op"` // none delete dup swap replace insert field
	Reply int    `json:"reply"`
	I     int    `json:"i"`
	What  string `json:"what,omitempty"`
	V     int    `json:"v,omitempty"`
}

type Case struct {
	Encrypt bool   `json:"encrypt"`
	KeyBits int    `json:"keybits,omitempty"`
	Nonce   int    `json:"nonce"`
	Remotes int    `json:"remotes,omitempty"`
	Pack    int    `json:"pack"`
	Warmup  string `json:"warmup,omitempty"` // a complete valid login on another connection precedes this one
	Edits   []Edit `json:"edits,omitempty"`
}

var h *hlib.H

func nonce(n int) []byte {
	b := make([]byte, n)
	for i := range b {
		b[i] = byte(0xA0 + i)
	}
	return b
}

var final = tdspkg.Done{Token: tdspkg.TokDone}

func replacement(what string) tdspkg.Pkg {
	switch what {
	case "done":
		return final
	case "done-more":
		return tdspkg.Done{Token: tdspkg.TokDone, Status: 1}
	case "loginack-succeed":
		return tdspkg.LoginAck{Status: 5, Version: [4]byte{5, 0, 0, 0}, Program: "ASE"}
	case "loginack-fail":
		return tdspkg.LoginAck{Status: 6, Version: [4]byte{5, 0, 0, 0}, Program: "ASE"}
	case "loginack-negotiate":
		return tdspkg.LoginAck{Status: 7, Version: [4]byte{5, 0, 0, 0}, Program: "ASE"}
	case "msg":
		return tdspkg.Msg{Status: 1, ID: 35}
	case "returnstatus":
		return tdspkg.ReturnStatus{Value: 1}
	case "capability":
		return lg.ServerCaps()
	case "eed-error":
		return tdspkg.EED{MsgNumber: 4002, State: 1, Class: 14, SQLState: []byte("ZZZZZ"), Msg: "Login failed.\n", Server: "srv"}
	case "eed-info":
		return tdspkg.EED{MsgNumber: 5701, Status: 2, SQLState: []byte("01ZZZ"), Msg: "Changed database context", Server: "srv"}
	case "envchange-packsize":
		return tdspkg.EnvChange{Members: []tdspkg.EnvMember{{Type: 4, New: "2048", Old: "512"}}}
	case "paramfmt0":
		return tdspkg.ParamFmt{}
	}
	panic("unknown replacement " + what)
}

var replKinds = []string{"done", "done-more", "loginack-succeed", "loginack-fail", "loginack-negotiate", "msg", "returnstatus", "capability", "eed-error"}

// apply builds the script of a case: the valid script with its edits.
func apply(c Case) ([]lg.Reply, string) {
	reps := lg.ValidReplies(c.Encrypt, c.KeyBits, nonce(c.Nonce))
	for i := range reps {
		reps[i].Pack = c.Pack
		if c.Pack >= 100 && i != len(reps)-1 {
			reps[i].Pack = 0 // 100+k: the LAST reply is cut at offset k
		}
		if c.Pack == 4 && i != len(reps)-1 {
			// only the last reply ends with an empty EOM packet: the library hands header-only packets to
			// the consumer as packages of their own, in the middle of the conversation that is C02's
			// unspecified region
			reps[i].Pack = 0
		}
	}
	note := ""
	for _, e := range c.Edits {
		if e.Reply >= len(reps) {
			return nil, "n/a"
		}
		p := reps[e.Reply].Pkgs
		switch e.Op {
		case "delete":
			if e.I >= len(p) {
				return nil, "n/a"
			}
			p = append(append([]tdspkg.Pkg{}, p[:e.I]...), p[e.I+1:]...)
		case "dup":
			if e.I >= len(p) {
				return nil, "n/a"
			}
			p = append(append(append([]tdspkg.Pkg{}, p[:e.I+1]...), p[e.I]), p[e.I+1:]...)
		case "swap":
			if e.I+1 >= len(p) {
				return nil, "n/a"
			}
			q := append([]tdspkg.Pkg{}, p...)
			q[e.I], q[e.I+1] = q[e.I+1], q[e.I]
			p = q
		case "replace":
			if e.I >= len(p) {
				return nil, "n/a"
			}
			q := append([]tdspkg.Pkg{}, p...)
			q[e.I] = replacement(e.What)
			p = q
		case "insert":
			if e.I > len(p) {
				return nil, "n/a"
			}
			p = append(append(append([]tdspkg.Pkg{}, p[:e.I]...), replacement(e.What)), p[e.I:]...)
		case "stall":
			reps[e.Reply].Pack = 3
		case "stall-after":
			// the server sends only the first I+1 packages of the reply and never terminates the message
			if e.I >= len(p) {
				return nil, "n/a"
			}
			p = append([]tdspkg.Pkg{}, p[:e.I+1]...)
			reps[e.Reply].Pack = 3
		case "drop-reply":
			reps = reps[:e.Reply]
			continue
		case "field":
			if e.I >= len(p) {
				return nil, "n/a"
			}
			q := append([]tdspkg.Pkg{}, p...)
			switch x := q[e.I].(type) {
			case tdspkg.LoginAck:
				if e.What != "status" {
					return nil, "n/a"
				}
				x.Status = uint8(e.V)
				q[e.I] = x
			case tdspkg.Msg:
				switch e.What {
				case "id":
					x.ID = uint16(e.V)
				case "status":
					x.Status = uint8(e.V)
				default:
					return nil, "n/a"
				}
				q[e.I] = x
			case tdspkg.Done:
				if e.What != "status" {
					return nil, "n/a"
				}
				x.Status = uint16(e.V)
				q[e.I] = x
			case tdspkg.Capability:
				switch e.What {
				case "zero-type":
					if e.V >= len(x.Masks) {
						return nil, "n/a"
					}
					m := append([][]byte{}, x.Masks...)
					m[e.V] = make([]byte, len(x.Masks[e.V]))
					x.Masks = m
				case "omit-type":
					// the capability package carries no entry at all for one type (0: request, 1: response) or for any (2)
					var ts []byte
					var ms [][]byte
					for k := range x.Types {
						if e.V == 2 || k == e.V {
							continue
						}
						ts = append(ts, x.Types[k])
						ms = append(ms, x.Masks[k])
					}
					x.Types, x.Masks = ts, ms
				case "zero-all":
					m := [][]byte{}
					for _, mm := range x.Masks {
						m = append(m, make([]byte, len(mm)))
					}
					x.Masks = m
				default:
					return nil, "n/a"
				}
				q[e.I] = x
			case tdspkg.ParamFmt, tdspkg.Data:
				// parameter edits act on the format and the data together
				fi, di := -1, -1
				for k, pk := range q {
					if _, ok := pk.(tdspkg.ParamFmt); ok && fi < 0 {
						fi = k
					}
					if _, ok := pk.(tdspkg.Data); ok && di < 0 {
						di = k
					}
				}
				if fi < 0 || di < 0 || e.I != fi {
					return nil, "n/a"
				}
				f := q[fi].(tdspkg.ParamFmt)
				d := q[di].(tdspkg.Data)
				fm := append([]tdspkg.Fmt{}, f.Fmts...)
				vs := append([]interface{}{}, d.Values...)
				switch e.What {
				case "count":
					for len(fm) > e.V {
						fm, vs = fm[:len(fm)-1], vs[:len(vs)-1]
					}
					for len(fm) < e.V {
						fm = append(fm, tdspkg.Fmt{DT: tdsval.INT4})
						vs = append(vs, int32(9))
					}
				case "type0", "type1", "type2":
					k := int(e.What[4] - '0')
					dt, v := altType(e.V)
					if dt == fm[k].DT {
						return nil, "n/a"
					}
					fm[k] = tdspkg.Fmt{DT: dt, MaxLen: 255, Precision: 10, Scale: 0}
					vs[k] = v
				case "key":
					vs[1] = keyVariant(e.V, c.KeyBits)
					note = keyNames[e.V]
				case "cipher":
					vs[0] = int32(e.V)
				default:
					return nil, "n/a"
				}
				f.Fmts, d.Fmts, d.Values = fm, fm, vs
				q[fi], q[di] = f, d
			default:
				return nil, "n/a"
			}
			p = q
		}
		reps[e.Reply].Pkgs = p
	}
	return reps, note
}

var keyNames = []string{"empty", "not-pem", "truncated-pem", "wrong-block-type", "pem-plus-trailing-bytes", "512-bit", "garbage-der", "newline-only", "blanks-only", "nul-bytes-only", "pem-plus-trailing-newlines"}

func keyVariant(v, bits int) []byte {
	pemb := lg.PublicPEM(bits)
	switch v {
	case 0:
		return []byte{}
	case 1:
		return []byte("this is not a PEM block")
	case 2:
		return pemb[:len(pemb)/2]
	case 3:
		return []byte(strings.Replace(string(pemb), "RSA PUBLIC KEY", "CERTIFICATE", 2))
	case 4:
		return append(append([]byte{}, pemb...), []byte("trailing")...)
	case 5:
		return lg.PublicPEM(512)
	case 7:
		return []byte("\n")
	case 8:
		return []byte("  \r\n\t ")
	case 9:
		return []byte{0, 0, 0, 0}
	case 10:
		return append(append([]byte{}, pemb...), []byte("\n\n")...)
	}
	return []byte("-----BEGIN RSA PUBLIC KEY-----\nAAAA\n-----END RSA PUBLIC KEY-----\n")
}

func altType(i int) (byte, interface{}) {
	alts := []struct {
		dt byte
		v  interface{}
	}{{tdsval.INT4, int32(1)}, {tdsval.INTN, int32(1)}, {tdsval.INT2, int16(1)}, {tdsval.INT8, int64(1)}, {tdsval.VARCHAR, "x"}, {tdsval.VARBINARY, []byte{1, 2}},
		{tdsval.LONGBINARY, []byte("0123456789abcdef")}, {tdsval.LONGCHAR, "abc"}, {tdsval.BINARY, []byte{1}}, {tdsval.BIT, true}, {tdsval.FLT8, float64(1)}, {tdsval.DATETIME, time.Date(2000, 1, 1, 0, 0, 0, 0, time.UTC)}}
	a := alts[i%len(alts)]
	return a.dt, a.v
}

const nAltTypes = 12

// ---- reference acceptor ----

func filter(p []tdspkg.Pkg) (out []tdspkg.Pkg, packsize string) {
	for _, x := range p {
		switch y := x.(type) {
		case tdspkg.EnvChange:
			for _, m := range y.Members {
				if m.Type == 4 {
					packsize = m.New
				}
			}
			continue
		case tdspkg.EED:
			if y.Status&0x2 != 0 {
				continue
			}
		}
		out = append(out, x)
	}
	return
}

func doneVerdict(p tdspkg.Pkg, last bool) string {
	d, ok := p.(tdspkg.Done)
	if !ok || d.Token != tdspkg.TokDone {
		return "fail"
	}
	switch {
	case d.Status&0x1 != 0:
		if last {
			return "fail" // more results follow: not a final DONE
		}
		return "unspecified"
	case d.Status == 0:
		return "ok"
	}
	return "unspecified"
}

// verdict returns must-succeed | must-fail | unspecified and the reason.
func verdict(c Case, reps []lg.Reply, note string) (string, string, string) {
	size := "512"
	synthetic := false
	var getRaw func(i int) []tdspkg.Pkg
	get := func(i int) []tdspkg.Pkg {
		r := getRaw(i)
		if i < len(reps) && reps[i].Pack != 3 && len(r) > 0 {
			// round model (C03): a message that does not end in a DONE with status 0 gets one from the library
			if d, ok := r[len(r)-1].(tdspkg.Done); !ok || d.Status != 0 {
				r = append(r, tdspkg.Done{Token: tdspkg.TokDone})
				synthetic = true
			}
		}
		return r
	}
	getRaw = func(i int) []tdspkg.Pkg {
		if i >= len(reps) || reps[i].Pack == 3 {
			if i < len(reps) {
				// the message never ends: whatever it contains, the server stalls afterwards
				f, ps := filter(reps[i].Pkgs)
				if ps != "" {
					size = ps
				}
				return append(f, tdspkg.Raw{B: []byte("stall")})
			}
			return nil
		}
		f, ps := filter(reps[i].Pkgs)
		if ps != "" {
			size = ps
		}
		return f
	}
	unspec := false
	if !c.Encrypt {
		r := get(0)
		if len(r) < 2 {
			return "must-fail", "missing package", size
		}
		la, ok := r[0].(tdspkg.LoginAck)
		if !ok || la.Status != 5 {
			return "must-fail", "first reply is not a success acknowledgement", size
		}
		switch doneVerdict(r[1], true) {
		case "fail":
			return "must-fail", "no final DONE after the acknowledgement", size
		case "unspecified":
			unspec = true
		}
		if len(r) > 2 || unspec || synthetic {
			return "unspecified", "surplus packages, DONE status bits or a DONE supplied by the library", size
		}
		return "must-succeed", "valid plain acceptance", size
	}
	r := get(0)
	if len(r) < 5 {
		return "must-fail", "missing package in the negotiation reply", size
	}
	if la, ok := r[0].(tdspkg.LoginAck); !ok || la.Status != 7 {
		return "must-fail", "no negotiation acknowledgement", size
	}
	if m, ok := r[1].(tdspkg.Msg); !ok || m.ID != 35 {
		return "must-fail", "no encryption message / wrong message id", size
	} else if m.Status != 1 {
		unspec = true
	}
	pf, ok := r[2].(tdspkg.ParamFmt)
	if !ok {
		return "must-fail", "no parameter format", size
	}
	pd, ok := r[3].(tdspkg.Data)
	if !ok || pd.Row {
		return "must-fail", "no parameters", size
	}
	if len(pf.Fmts) != 3 || len(pd.Values) != 3 {
		return "must-fail", "wrong parameter count", size
	}
	if pf.Fmts[0].DT != tdsval.INT4 || pf.Fmts[1].DT != tdsval.LONGBINARY || pf.Fmts[2].DT != tdsval.LONGBINARY {
		return "must-fail", "wrong parameter types", size
	}
	if v, _ := pd.Values[0].(int32); v != 1 {
		unspec = true // cipher suite other than RSA: the statement does not list it
	}
	if c.Encrypt && c.Nonce+32 > c.KeyBits/8-42 && note == "" {
		return "must-fail", "key too small for nonce and session key", size
	}
	switch note {
	case "empty", "not-pem", "truncated-pem", "pem-plus-trailing-bytes", "garbage-der", "newline-only", "blanks-only", "nul-bytes-only":
		return "must-fail", "unusable key (" + note + ")", size
	case "pem-plus-trailing-newlines":
		unspec = true // a complete key followed by white space: accepting or rejecting it is not covered by the statement
	case "512-bit":
		if c.Nonce+len("secret-password") > 64-42 {
			return "must-fail", "key too small for nonce and password", size
		}
		unspec = true
	case "wrong-block-type":
		unspec = true
	}
	switch doneVerdict(r[4], false) {
	case "fail":
		return "must-fail", "no DONE after the key parameters", size
	case "unspecified":
		unspec = true
	}
	if len(r) > 5 {
		unspec = true
	}
	r2 := get(1)
	k := 0
	for k < len(r2) {
		if _, ok := r2[k].(tdspkg.LoginAck); ok {
			break
		}
		k++
	}
	if k > 0 {
		unspec = true // surplus packages before the acknowledgement
	}
	if k >= len(r2) {
		return "must-fail", "no acknowledgement after the credentials", size
	}
	if la := r2[k].(tdspkg.LoginAck); la.Status != 5 {
		return "must-fail", "acknowledgement with failure status", size
	}
	if k+1 >= len(r2) {
		return "must-fail", "capabilities missing", size
	}
	cp, ok := r2[k+1].(tdspkg.Capability)
	if !ok {
		return "must-fail", "capabilities missing", size
	}
	hasRequest := false
	for i := range cp.Types {
		if cp.Types[i] == 1 {
			hasRequest = true
		}
		if len(cp.Masks[i]) > 0 && len(cp.Bits(i)) == 0 {
			return "must-fail", "all-zero capabilities", size
		}
	}
	if !hasRequest {
		// no request capability granted at all is the all-zero answer in its shortest form
		return "must-fail", "no request capabilities returned", size
	}
	if len(cp.Types) < 2 {
		unspec = true
	}
	if k+2 >= len(r2) {
		return "must-fail", "final DONE missing", size
	}
	switch doneVerdict(r2[k+2], true) {
	case "fail":
		return "must-fail", "no final DONE", size
	case "unspecified":
		unspec = true
	}
	if len(r2) > k+3 {
		unspec = true
	}
	if unspec || synthetic || c.Nonce == 0 {
		return "unspecified", "surplus packages / unlisted deviations / DONE supplied by the library / empty nonce", size
	}
	return "must-succeed", "valid encrypted acceptance", size
}

func editClass(c Case) string {
	if len(c.Edits) == 0 {
		return "valid-script"
	}
	var s []string
	for _, e := range c.Edits {
		x := e.Op
		if e.What != "" {
			x += ":" + e.What
		}
		s = append(s, x)
	}
	return strings.Join(s, "+")
}

func run(c Case) {
	reps, note := apply(c)
	if note == "n/a" {
		return
	}
	want, why, size := verdict(c, reps, note)
	var remotes [][2]string
	for i := 0; i < c.Remotes; i++ {
		remotes = append(remotes, [2]string{fmt.Sprintf("remote%d", i), fmt.Sprintf("rpw%d", i)})
	}
	res := lg.Run(lg.Scenario{Encrypt: c.Encrypt, User: "sa", Password: "secret-password", Host: "client", Remotes: remotes, Replies: reps, Timeout: 30 * time.Second, Warmup: c.Warmup})
	h.Eval(len(c.Edits) > 0)
	h.State()
	h.Trace()
	flow := "plain"
	if c.Encrypt {
		flow = "encrypted"
	}
	cls := flow + "|" + editClass(c)
	if c.Warmup != "" {
		cls += "|after-earlier-login"
	}
	js, _ := json.Marshal(c)
	ctxt := fmt.Sprintf("%s [%s; acceptor: %s (%s)]", js, describe(reps), want, why)
	if strings.HasPrefix(res.Failure, "DIVERGED") {
		h.Fatal("%s", res.Failure)
	}
	if res.Failure != "" {
		kind := strings.SplitN(res.Failure, ":", 2)[0]
		h.Violate("C08|"+kind+"|"+cls, fmt.Sprintf("%s: %s", ctxt, res.Failure), c)
		return
	}
	if !res.Returned {
		h.Violate("C08|login-did-not-return|"+cls, ctxt, c)
		return
	}
	if res.At > 30*time.Second {
		h.Violate("C08|outlives-context|"+cls, fmt.Sprintf("%s: Login returned at virtual time %v, its context expired at 30s (error: %v)", ctxt, res.At, res.Err), c)
		return
	}
	switch want {
	case "must-succeed":
		if res.Err != nil {
			h.Violate("C08|valid-acceptance-rejected|"+cls, fmt.Sprintf("%s: Login returned %v", ctxt, res.Err), c)
			return
		}
		if c.Encrypt && res.CapsDesc != rx.RefDesc(lg.ServerCaps()) {
			h.Violate("C08|capabilities-not-taken-over|"+cls, fmt.Sprintf("%s: connection capabilities are %s, the server returned %s", ctxt, res.CapsDesc, rx.RefDesc(lg.ServerCaps())), c)
			return
		}
		if fmt.Sprint(res.PacketSize) != size {
			h.Violate("C08|packet-size-not-taken-over|"+cls, fmt.Sprintf("%s: PacketSize() = %d, the server announced %s", ctxt, res.PacketSize, size), c)
			return
		}
		h.Outcome("success")
	case "must-fail":
		if res.Err == nil {
			h.Violate("C08|success-without-acceptance|"+cls, fmt.Sprintf("%s: Login reported success", ctxt), c)
			return
		}
		if res.At >= 30*time.Second {
			h.Outcome("error-at-context-expiry")
		} else {
			h.Outcome("error")
		}
	default:
		if res.Err == nil {
			h.Outcome("unspecified-success")
		} else {
			h.Outcome("unspecified-error")
		}
	}
}

func describe(reps []lg.Reply) string {
	var s []string
	for _, r := range reps {
		var k []string
		for _, p := range r.Pkgs {
			d := p.Kind()
			switch x := p.(type) {
			case tdspkg.LoginAck:
				d += fmt.Sprintf("(%d)", x.Status)
			case tdspkg.Done:
				d += fmt.Sprintf("(%#x)", x.Status)
			case tdspkg.Msg:
				d += fmt.Sprintf("(%d)", x.ID)
			}
			k = append(k, d)
		}
		s = append(s, strings.Join(k, ","))
	}
	return strings.Join(s, " / ")
}

func main() {
	h = hlib.Init("C08")
	var rc Case
	if h.ReplayCase(&rc) {
		run(rc)
		h.ReplayReport()
	}
	idx := 0
	emit := func(c Case) {
		idx++
		if !h.Mine(idx) {
			return
		}
		run(c)
		h.Sample(func() interface{} { return c })
	}
	var bases []Case
	for _, pack := range []int{0, 1, 2, 4} {
		bases = append(bases, Case{Encrypt: false, Pack: pack})
		for _, bits := range []int{1024, 1536, 2048} {
			for _, n := range []int{0, 1, 16, 32, bits/8 - 42 - 32 - 1, bits/8 - 42 - 32, bits/8 - 42 - 32 + 1} {
				for rem := 0; rem <= 1; rem++ {
					bases = append(bases, Case{Encrypt: true, KeyBits: bits, Nonce: n, Remotes: rem, Pack: pack})
				}
			}
		}
	}
	for _, b := range bases {
		emit(b)
		h.Section("valid-scripts", 1)
	}
	// every 1-cut packetisation of the accepting reply, with the packet size announcement at either end of it
	for _, enc := range []bool{false, true} {
		last := 0
		if enc {
			last = 1
		}
		for _, at := range []int{0, 1} {
			for k := 1; k <= 130; k++ {
				emit(Case{Encrypt: enc, KeyBits: 1024, Nonce: 16, Pack: 100 + k, Edits: []Edit{{Op: "insert", Reply: last, I: at, What: "envchange-packsize"}}})
				h.Section("every-cut-of-the-accepting-reply", 1)
			}
		}
	}
	// single edits on a reduced set of bases (all packetisations; one key size per nonce length)
	var eb []Case
	for _, pack := range []int{0, 1, 2, 4} {
		eb = append(eb, Case{Encrypt: false, Pack: pack}, Case{Encrypt: true, KeyBits: 1024, Nonce: 16, Pack: pack})
	}
	eb = append(eb, Case{Encrypt: true, KeyBits: 2048, Nonce: 32, Remotes: 1, Pack: 0})
	var edits []Edit
	for r := 0; r < 2; r++ {
		for i := 0; i <= 5; i++ {
			edits = append(edits, Edit{Op: "delete", Reply: r, I: i}, Edit{Op: "dup", Reply: r, I: i}, Edit{Op: "swap", Reply: r, I: i})
			for _, k := range replKinds {
				edits = append(edits, Edit{Op: "replace", Reply: r, I: i, What: k})
			}
			for _, k := range []string{"eed-info", "envchange-packsize", "eed-error", "returnstatus", "done"} {
				edits = append(edits, Edit{Op: "insert", Reply: r, I: i, What: k})
			}
			for v := 0; v < 256; v++ {
				edits = append(edits, Edit{Op: "field", Reply: r, I: i, What: "status", V: v})
			}
			for v := 0; v <= 40; v++ {
				edits = append(edits, Edit{Op: "field", Reply: r, I: i, What: "id", V: v})
			}
			for v := 0; v <= 5; v++ {
				edits = append(edits, Edit{Op: "field", Reply: r, I: i, What: "count", V: v})
			}
			for k := 0; k < 3; k++ {
				for v := 0; v < nAltTypes; v++ {
					edits = append(edits, Edit{Op: "field", Reply: r, I: i, What: fmt.Sprintf("type%d", k), V: v})
				}
			}
			for v := 0; v < len(keyNames); v++ {
				edits = append(edits, Edit{Op: "field", Reply: r, I: i, What: "key", V: v})
			}
			for _, v := range []int{0, 2, 3, -1} {
				edits = append(edits, Edit{Op: "field", Reply: r, I: i, What: "cipher", V: v})
			}
			for v := 0; v < 2; v++ {
				edits = append(edits, Edit{Op: "field", Reply: r, I: i, What: "zero-type", V: v})
			}
			edits = append(edits, Edit{Op: "field", Reply: r, I: i, What: "zero-all"})
			for v := 0; v <= 2; v++ {
				edits = append(edits, Edit{Op: "field", Reply: r, I: i, What: "omit-type", V: v})
			}
		}
		edits = append(edits, Edit{Op: "stall", Reply: r}, Edit{Op: "drop-reply", Reply: r})
		for i := 0; i <= 4; i++ {
			edits = append(edits, Edit{Op: "stall-after", Reply: r, I: i})
		}
	}
	// DONE status: every single bit and a few combinations
	for r := 0; r < 2; r++ {
		for i := 0; i <= 5; i++ {
			for b := 0; b < 16; b++ {
				edits = append(edits, Edit{Op: "field", Reply: r, I: i, What: "status", V: 256 + (1 << uint(b))})
			}
		}
	}
	for _, b := range eb {
		for _, e := range edits {
			c := b
			if e.What == "status" && e.V >= 256 {
				e.V -= 256
				// 16-bit DONE status values only make sense on DONE packages; apply() ignores others via n/a for >255 on 8-bit fields
			}
			c.Edits = []Edit{e}
			emit(c)
			h.Section("single-edits", 1)
		}
	}
	// history: the same single edits on a connection opened after an earlier successful login of the process
	for _, w := range []string{"encrypted", "plain"} {
		b := Case{Encrypt: true, KeyBits: 1024, Nonce: 16, Pack: 0, Warmup: w}
		emit(b)
		for _, e := range edits {
			if e.Op == "field" && (e.What == "status" || e.What == "id") && e.V > 8 && e.V != 35 {
				continue
			}
			c := b
			c.Edits = []Edit{e}
			emit(c)
			h.Section("single-edits-after-earlier-login", 1)
		}
		// capability replies lacking whole types
		for _, caps := range [][2][]byte{{{}, {}}, {{1}, {}}, {{}, {1}}} {
			_ = caps
		}
	}
	// selected pairs (also in quick): an altered package combined with a server that stalls afterwards
	for _, b := range eb {
		for r := 0; r < 2; r++ {
			for i := 0; i <= 4; i++ {
				for _, k := range replKinds {
					for j := i; j <= 4; j++ {
						c := b
						c.Edits = []Edit{{Op: "replace", Reply: r, I: i, What: k}, {Op: "stall-after", Reply: r, I: j}}
						emit(c)
						h.Section("edit+stall", 1)
					}
				}
			}
		}
	}
	// pairs of structural edits (thorough)
	if h.Thorough {
		var st []Edit
		for _, e := range edits {
			if e.Op != "field" {
				st = append(st, e)
			}
		}
		b := Case{Encrypt: true, KeyBits: 1024, Nonce: 16, Pack: 0}
		for i, e1 := range st {
			if h.Expired("edit pairs cut short") {
				break
			}
			for _, e2 := range st[i+1:] {
				c := b
				c.Edits = []Edit{e1, e2}
				emit(c)
				h.Section("edit-pairs", 1)
			}
		}
	}
	h.Done()
}
