//go:build vrt

// Package lg runs Channel.Login of the real library against a scripted peer
// under the controlled scheduler (shared by C08 and C09).
package lg

import (
	"context"
	"crypto/rsa"
	"crypto/x509"
	"encoding/pem"
	"fmt"
	"os"
	"path/filepath"
	"time"

	"github.com/SAP/go-dblib/tds"
	"github.com/SAP/go-dblib/vrt"
	"verif/harness/hx"
	"verif/harness/rx"
	"verif/ref/tdspkg"
	"verif/ref/tdsval"
)

// Reply is one server message: packages and how they are cut into packets.
type Reply struct {
	Pkgs []tdspkg.Pkg
	Pack int // 0 one packet, 1 one package per packet, 2 cut in the middle of the body, 3 no EOM on the last packet (server stalls mid-message), 4 one packet without EOM followed by an empty EOM packet
}

// Scenario is one login attempt.
type Scenario struct {
	Encrypt  bool
	User     string
	Password string
	Host     string
	App      string
	Remotes  [][2]string // name, password
	// further login record fields; "" keeps the harness default, "\x00empty" sets the empty string
	HostProc, ServName, Language, CharSet string
	Replies                               []Reply
	Timeout                               time.Duration // caller's context
	// history
	Warmup      string // "", "plain", "encrypted": a complete valid login on another connection first
	ReuseConfig bool   // reuse the warm-up's LoginConfig object
	// OldPassword: the warm-up login used this account password; the caller then sets the config's
	// password to Password and logs in again with the config exactly as the library left it
	OldPassword string
}

// Result of a login attempt.
type Result struct {
	Returned   bool
	Err        error
	ErrText    string
	At         time.Duration // virtual time when Login returned
	Writes     [][]byte      // every transport write of the client
	CapsDesc   string
	PacketSize int
	Failure    string
	Draws      [][]byte // random draws
	Leftover   string
}

var keys = map[int]*rsa.PrivateKey{}

// Key loads a fixture key.
func Key(bits int) *rsa.PrivateKey {
	if k, ok := keys[bits]; ok {
		return k
	}
	root := os.Getenv("VERIF_ROOT")
	if root == "" {
		root = "/verif"
	}
	bs, err := os.ReadFile(filepath.Join(root, "fixtures", fmt.Sprintf("rsa%d.pem", bits)))
	if err != nil {
		panic(err)
	}
	blk, _ := pem.Decode(bs)
	k, err := x509.ParsePKCS1PrivateKey(blk.Bytes)
	if err != nil {
		panic(err)
	}
	keys[bits] = k
	return k
}

// PublicPEM is the PKCS#1 public key in PEM form, as a server sends it.
func PublicPEM(bits int) []byte {
	return pem.EncodeToMemory(&pem.Block{Type: "RSA PUBLIC KEY", Bytes: x509.MarshalPKCS1PublicKey(&Key(bits).PublicKey)})
}

var keyFmts = []tdspkg.Fmt{{DT: tdsval.INT4}, {DT: tdsval.LONGBINARY, MaxLen: 2147483647}, {DT: tdsval.LONGBINARY, MaxLen: 2147483647}}

// ServerCaps is the capability answer of the scripted server.
func ServerCaps() tdspkg.Capability {
	return tdspkg.Capability{Types: []byte{1, 2}, Masks: [][]byte{{0x00, 0x03, 0xef, 0xff, 0x7f, 0xff, 0xff, 0xff, 0xfe, 0xff, 0xff, 0xff, 0xff, 0xe6}, {0x00, 0x00, 0x00, 0x06, 0x48, 0x00, 0x00, 0x0c}}}
}

var ver = [4]byte{5, 0, 0, 0}

// ValidReplies builds the valid acceptance script of the flow.
func ValidReplies(encrypt bool, keyBits int, nonce []byte) []Reply {
	final := tdspkg.Done{Token: tdspkg.TokDone}
	if !encrypt {
		return []Reply{{Pkgs: []tdspkg.Pkg{tdspkg.LoginAck{Status: 5, Version: ver, Program: "ASE", ProgVersion: [4]byte{16, 0, 3, 0}}, final}}}
	}
	return []Reply{
		{Pkgs: []tdspkg.Pkg{
			tdspkg.LoginAck{Status: 7, Version: ver, Program: "ASE", ProgVersion: [4]byte{16, 0, 3, 0}},
			tdspkg.Msg{Status: 1, ID: 35},
			tdspkg.ParamFmt{Fmts: keyFmts},
			tdspkg.Data{Fmts: keyFmts, Values: []interface{}{int32(1), PublicPEM(keyBits), append([]byte{}, nonce...)}},
			final}},
		{Pkgs: []tdspkg.Pkg{
			tdspkg.LoginAck{Status: 5, Version: ver, Program: "ASE", ProgVersion: [4]byte{16, 0, 3, 0}},
			ServerCaps(),
			final}},
	}
}

func packets(r Reply) [][]byte {
	body := tdspkg.Stream(r.Pkgs...)
	var cuts []int
	switch r.Pack {
	case 1:
		off := 0
		for _, p := range r.Pkgs[:len(r.Pkgs)-1] {
			off += len(p.Encode())
			cuts = append(cuts, off)
		}
	case 2:
		if len(body) > 1 {
			cuts = []int{len(body) / 2}
		}
	default:
		if r.Pack >= 100 && r.Pack-100 < len(body) { // 100+k: one cut at offset k
			cuts = []int{r.Pack - 100}
		}
	}
	pk := hx.Packetise(4, 0, body, cuts)
	if r.Pack == 3 || r.Pack == 4 {
		last := pk[len(pk)-1]
		last[1] &^= hx.EOM
	}
	if r.Pack == 4 {
		// the message ends with an empty EOM packet (what a sender does whose message fills its packets exactly)
		pk = append(pk, hx.Packet(4, hx.EOM, 0, 0, nil))
	}
	return pk
}

// one performs one login on a fresh connection inside the running execution.
func one(sc Scenario, shared *tds.LoginConfig) (res Result, conf *tds.LoginConfig) {
	conn, pipe, err := hx.NewConn(context.Background(), 100, 50)
	if err != nil {
		res.Failure = "NewConn: " + err.Error()
		return
	}
	ch, err := conn.NewChannel()
	if err != nil {
		res.Failure = "NewChannel: " + err.Error()
		return
	}
	conf = shared
	if conf == nil {
		info := &tds.Info{}
		info.Host, info.Port = "srv", "5000"
		info.Username, info.Password = sc.User, sc.Password
		info.ClientHostname = sc.Host
		conf, err = tds.NewLoginConfig(info)
		if err != nil {
			res.Failure = "NewLoginConfig: " + err.Error()
			return
		}
		conf.HostProc = "4711"
		if sc.App != "" {
			conf.AppName = sc.App
		}
		conf.Hostname = sc.Host
		for _, o := range []struct {
			v string
			p *string
		}{{sc.HostProc, &conf.HostProc}, {sc.ServName, &conf.ServName}, {sc.Language, &conf.Language}, {sc.CharSet, &conf.CharSet}} {
			switch o.v {
			case "":
			case "\x00empty":
				*o.p = ""
			default:
				*o.p = o.v
			}
		}
		for _, r := range sc.Remotes {
			conf.RemoteServers = append(conf.RemoteServers, tds.LoginConfigRemoteServer{Name: r[0], Password: r[1]})
		}
	}
	if !sc.Encrypt {
		conf.Encrypt = 0
	} else {
		conf.Encrypt = tds.TDS_MSG_SEC_ENCRYPT4
	}
	vrt.GoNamed("peer", func() {
		for _, r := range sc.Replies {
			for {
				w := pipe.PeerRecv()
				if w == nil {
					return
				}
				if len(w) >= 2 && w[1]&hx.EOM != 0 {
					break
				}
			}
			if len(r.Pkgs) > 0 {
				pipe.PeerSend(rx.OneChunk(packets(r))...)
			}
		}
	})
	to := sc.Timeout
	if to == 0 {
		to = 30 * time.Second
	}
	start := vrt.Now()
	ctx, cancel := vrt.WithTimeout(context.Background(), to)
	defer cancel()
	err = ch.Login(ctx, conf)
	res.Returned = true
	res.Err = err
	if err != nil {
		res.ErrText = err.Error()
	}
	res.At = vrt.Now() - start
	// the client's byte stream cut into packets (however it was spread over Write calls); bytes
	// that do not complete a packet are kept as a last element so that they are not overlooked
	res.Writes = append([][]byte{}, pipe.Packets()...)
	if len(pipe.Partial()) > 0 {
		res.Writes = append(res.Writes, append([]byte{}, pipe.Partial()...))
	}
	if conn.Caps != nil {
		res.CapsDesc = rx.LibDesc(conn.Caps)
	}
	if err == nil {
		vrt.Settle() // an announcement that arrives behind the final DONE is applied once the reader gets to it
	}
	res.PacketSize = conn.PacketSize()
	if err == nil {
		if p, e := ch.NextPackage(context.Background(), false); e == nil {
			res.Leftover = rx.LibDesc(p)
		}
	}
	return
}

// Run executes the scenario in one controlled execution. If sc.Warmup is
// set, a complete valid login of the warm-up flow is performed first on
// another connection of the same process (history); if sc.ReuseConfig is
// set, the scenario's login reuses the warm-up's LoginConfig object.
func Run(sc Scenario) Result {
	var res Result
	vrt.ResetRand()
	x := vrt.Run(vrt.Config{}, func() {
		res = Result{}
		var shared *tds.LoginConfig
		if sc.Warmup != "" {
			w := sc
			w.Encrypt = sc.Warmup == "encrypted"
			w.Replies = ValidReplies(w.Encrypt, 1024, []byte("0123456789abcdef"))
			if sc.OldPassword != "" {
				w.Password = sc.OldPassword
			}
			wres, conf := one(w, nil)
			if wres.Failure != "" || wres.Err != nil {
				res.Failure = fmt.Sprintf("warm-up login failed: %v %s", wres.Err, wres.Failure)
				return
			}
			if sc.ReuseConfig {
				shared = conf
				if sc.OldPassword != "" {
					shared.DSN.Password = sc.Password // ... and nothing else is touched
				} else {
					// Login prepends the account password to the remote servers of the config it is given
					shared.RemoteServers = nil
					for _, r := range sc.Remotes {
						shared.RemoteServers = append(shared.RemoteServers, tds.LoginConfigRemoteServer{Name: r[0], Password: r[1]})
					}
				}
			}
			vrt.ResetRand()
		}
		res, _ = one(sc, shared)
		vrt.Finish()
	})
	if x.Failure != nil {
		res.Failure = x.Failure.String() + "\n" + x.Failure.Stack
	}
	if x.Diverged != "" {
		res.Failure = "DIVERGED " + x.Diverged
	}
	res.Draws = append([][]byte{}, vrt.RandDraws...)
	return res
}
