//go:build vrt

// C12 — logical channels are isolated and correctly routed under concurrency.
// Stateless model checking of the instrumented tds package with the
// happens-before race detector: closed scenarios over several logical
// channels used from several goroutines, explored under all schedules with a
// bounded number of deviations.
package main

import (
	"context"
	"encoding/binary"
	"errors"
	"fmt"
	"regexp"
	"sort"
	"strings"
	"time"

	"github.com/SAP/go-dblib/tds"
	"github.com/SAP/go-dblib/vrt"
	"verif/harness/hx"
	"verif/hlib"
	"verif/ref/tdspkg"
)

type Case struct {
	Scenario string `json:"scenario"`
	N        int    `json:"n,omitempty"`
	Bound    int    `json:"bound"`
	Choices  []int  `json:"choices,omitempty"`
}

var h *hlib.H

type world struct {
	notes []string
	facts map[string]string
}

func (w *world) bad(sig, det string) { w.notes = append(w.notes, sig+"\x00"+det) }

const (
	bufSetup   = 8
	bufClose   = 9
	bufProtack = 11
)

func hdr(typ, status byte, channel int, body []byte) []byte {
	return hx.Packet(typ, status, channel, 0, body)
}

// chanID reads the id of a library channel from the packets it sends.
type sent struct {
	typ, status byte
	channel, nr int
	body        []byte
}

func parseWrites(ws [][]byte) []sent {
	var out []sent
	for _, w := range ws {
		if len(w) < 8 {
			out = append(out, sent{typ: 255})
			continue
		}
		out = append(out, sent{typ: w[0], status: w[1], channel: int(binary.BigEndian.Uint16(w[4:])), nr: int(w[6]), body: w[8:]})
	}
	return out
}

// peer: acknowledges channel set-up, answers each complete request on a
// channel with that channel's script (two packets, two packages), answers
// the logout on channel 0.
func peer(pipe *vrt.Pipe, extra func(channel int, pipe *vrt.Pipe)) {
	for {
		w := pipe.PeerRecv()
		if w == nil {
			return
		}
		if len(w) < 8 {
			continue
		}
		typ, status, channel := w[0], w[1], int(binary.BigEndian.Uint16(w[4:]))
		switch {
		case typ == bufSetup:
			pipe.PeerSend(hdr(bufProtack, hx.EOM, channel, nil))
		case typ == bufClose:
			// no acknowledgement expected by the client
		case status&hx.EOM != 0 && len(w) > 8 && w[8] == tdspkg.TokLogout:
			pipe.PeerSend(hdr(4, hx.EOM, channel, tdspkg.Done{Token: tdspkg.TokDone}.Encode()))
		case status&hx.EOM != 0:
			// reply: RETURNSTATUS(100+channel), DONE(count=channel); three packets, both cuts INSIDE a package,
			// so that a package straddles a packet boundary while packets of other channels arrive in between
			body := append(tdspkg.ReturnStatus{Value: int32(100 + channel)}.Encode(), tdspkg.Done{Token: tdspkg.TokDone, Status: 0x10, Count: int32(channel)}.Encode()...)
			p1 := hdr(4, 0, channel, body[:3])
			p2 := hdr(4, 0, channel, body[3:9])
			p3 := hdr(4, hx.EOM, channel, body[9:])
			pipe.PeerSend(p1)
			if extra != nil {
				extra(channel, pipe)
			}
			pipe.PeerSend(p2)
			pipe.PeerSend(p3)
		}
	}
}

// idOf learns a channel's id from the header of a packet carrying a marker only this channel sent.
func idOf(ch *tds.Channel, pipe *vrt.Pipe, marker string) int {
	ctx, cancel := vrt.WithTimeout(context.Background(), time.Minute)
	defer cancel()
	ch.QueuePackage(ctx, &tds.LanguagePackage{Cmd: strings.Repeat(marker, 1+600/len(marker))})
	for _, s := range parseWrites(pipe.Packets()) {
		if strings.Contains(string(s.body), marker) {
			return s.channel
		}
	}
	return -1
}

// connReport: an error a receive call returns that is neither about the caller's context nor one of
// the library's own sentinels for "nothing there" / "closed" - in these scenarios (well-formed
// traffic, live transport) that can only be the connection's report about a packet it could not
// route. The wording of the report is the library's business.
// reports: how many separate reports one returned error carries (several may be handed over at
// once, joined); a plain or singly wrapped error is one report.
func reports(err error) int {
	switch x := err.(type) {
	case interface{ Unwrap() []error }:
		n := 0
		for _, e := range x.Unwrap() {
			if e != nil {
				n += reports(e)
			}
		}
		if n == 0 {
			n = 1
		}
		return n
	case interface{ Unwrap() error }:
		if e := x.Unwrap(); e != nil {
			return reports(e)
		}
	}
	return 1
}

func connReport(err error) bool {
	if err == nil || errors.Is(err, context.Canceled) || errors.Is(err, context.DeadlineExceeded) ||
		errors.Is(err, tds.ErrNoPackageReady) || errors.Is(err, tds.ErrChannelClosed) {
		return false
	}
	return true
}

// use sends one 2-packet request on ch and reads the reply; returns what was received
func use(ch *tds.Channel, w *world, who string, wantID int) {
	ctx, cancel := vrt.WithTimeout(context.Background(), 10*time.Minute)
	defer cancel()
	if err := ch.SendPackage(ctx, &tds.LanguagePackage{Cmd: strings.Repeat(who, 600)}); err != nil {
		w.bad("C12|send-failed", fmt.Sprintf("%s: SendPackage: %v", who, err))
		return
	}
	var got []string
	connErrs := 0
	for len(got) < 6 {
		p, err := ch.NextPackage(ctx, true)
		if err != nil {
			if connReport(err) && connErrs < 5 {
				// a connection-wide report about somebody else's packet: not part of this channel's delivery
				connErrs++
				w.facts["conn-error-seen-by"] = who
				continue
			}
			got = append(got, "error: "+err.Error())
			break
		}
		switch x := p.(type) {
		case *tds.ReturnStatusPackage:
			got = append(got, fmt.Sprintf("RETURNSTATUS %d", x.ReturnValue))
		case *tds.DonePackage:
			got = append(got, fmt.Sprintf("DONE %#x %d", uint16(x.Status), x.Count))
			if x.Status == 0 {
				goto out
			}
		default:
			got = append(got, fmt.Sprintf("%T", p))
		}
	}
out:
	want := []string{fmt.Sprintf("RETURNSTATUS %d", 100+wantID), fmt.Sprintf("DONE 0x10 %d", wantID), "DONE 0x0 0"}
	if strings.Join(got, "|") != strings.Join(want, "|") {
		cls := "wrong-delivery"
		w.bad("C12|"+cls, fmt.Sprintf("%s (channel %d) received %v, its script is %v", who, wantID, got, want))
	}
	w.facts[who] = "served"
}

func checkOutgoing(pipe *vrt.Pipe, w *world) {
	// outgoing packets carry their channel's id with consecutive packet numbers (channels > 0)
	next := map[int]int{}
	for i, s := range parseWrites(pipe.Packets()) {
		if s.typ == 255 {
			w.bad("C12|outgoing|short-write", fmt.Sprintf("transport write %d is shorter than a header", i))
			continue
		}
		if s.channel == 0 {
			continue
		}
		if want, ok := next[s.channel]; ok && s.nr != want {
			w.bad("C12|outgoing|packet-number", fmt.Sprintf("transport write %d on channel %d carries packet number %d, expected %d", i, s.channel, s.nr, want))
		}
		next[s.channel] = (s.nr + 1) % 256
	}
}

func body(c Case, w *world) func() {
	return func() {
		*w = world{facts: map[string]string{}}
		qsize := 100
		if c.Scenario == "S5-slow-consumer-small-queue" {
			qsize = 2 // Info.ChannelPackageQueueSize: the reader has to wait for the consumer
		}
		conn, pipe, err := hx.NewConn(context.Background(), qsize, 50)
		if err != nil {
			w.bad("C12|setup", err.Error())
			return
		}
		ch0, err := conn.NewChannel()
		if err != nil {
			w.bad("C12|setup", err.Error())
			return
		}
		_ = ch0
		newCh := func(who string) (*tds.Channel, int) {
			mark := len(pipe.Packets())
			ch, err := conn.NewChannel()
			if err != nil {
				w.bad("C12|NewChannel-failed", fmt.Sprintf("%s: NewChannel failed although the server acknowledged the set-up: %v", who, err))
				return nil, -1
			}
			// sequential callers: the set-up packet this call sent carries the channel's own id
			id := -1
			for _, s := range parseWrites(pipe.Packets()[mark:]) {
				if s.typ == bufSetup {
					id = s.channel
				}
			}
			return ch, id
		}
		switch c.Scenario {
		case "S1-concurrent-newchannel":
			vrt.GoNamed("peer", func() { peer(pipe, nil) })
			ids := make([]int, c.N)
			wg := make(chan int, c.N)
			for i := 0; i < c.N; i++ {
				i := i
				vrt.GoNamed(fmt.Sprintf("u%d", i), func() {
					ch, _ := newCh(fmt.Sprintf("u%d", i))
					ids[i] = -1
					if ch != nil {
						ids[i] = idOf(ch, pipe, fmt.Sprintf("<marker-of-u%d>", i))
					}
					vrt.BeforeSend(wg)
					wg <- i
				})
			}
			for i := 0; i < c.N; i++ {
				vrt.Recv(wg)
			}
			seen := map[int]int{}
			for i, id := range ids {
				if id <= 0 {
					continue
				}
				if o, dup := seen[id]; dup {
					w.bad("C12|duplicate-id", fmt.Sprintf("goroutines u%d and u%d both obtained channel id %d", o, i, id))
				}
				seen[id] = i
			}
			w.facts["ids"] = fmt.Sprint(len(seen))
		case "S2-two-channels":
			vrt.GoNamed("peer", func() { peer(pipe, nil) })
			a, ida := newCh("a")
			b, idb := newCh("b")
			if a == nil || b == nil {
				return
			}
			if ida == idb {
				w.bad("C12|duplicate-id", fmt.Sprintf("two channels with id %d", ida))
			}
			wg := make(chan int, 2)
			vrt.GoNamed("ua", func() { use(a, w, "a", ida); vrt.BeforeSend(wg); wg <- 1 })
			vrt.GoNamed("ub", func() { use(b, w, "b", idb); vrt.BeforeSend(wg); wg <- 1 })
			vrt.Recv(wg)
			vrt.Recv(wg)
			checkOutgoing(pipe, w)
		case "S3-close-while-other-in-use":
			vrt.GoNamed("peer", func() { peer(pipe, nil) })
			a, ida := newCh("a")
			b, idb := newCh("b")
			if a == nil || b == nil {
				return
			}
			wg := make(chan int, 2)
			if c.N == 1 {
				use(a, w, "a", ida)
			}
			vrt.GoNamed("closer", func() {
				a.Close()
				// a late packet for the closed channel arrives afterwards
				pipe.PeerSend(hdr(4, hx.EOM, ida, tdspkg.ReturnStatus{Value: 999}.Encode()))
				vrt.BeforeSend(wg)
				wg <- 1
			})
			vrt.GoNamed("ub", func() { use(b, w, "b", idb); vrt.BeforeSend(wg); wg <- 1 })
			vrt.Recv(wg)
			vrt.Recv(wg)
			// the late packet is reported as a connection error (to whoever asks next) and otherwise ignored
			vrt.Settle()
			if w.facts["conn-error-seen-by"] == "" {
				sctx, scancel := vrt.WithTimeout(context.Background(), time.Second)
				_, err := b.NextPackage(sctx, true)
				scancel()
				if !connReport(err) {
					w.bad("C12|late-packet-not-reported", fmt.Sprintf("a packet for the closed channel %d arrived; no connection error was reported (next receive: %v)", ida, err))
				}
			}
			w.facts["late-packet"] = "connection-error"
			checkOutgoing(pipe, w)
		case "S5-slow-consumer-small-queue":
			// the server sends 4+N packets of two packages each to channel b (package queue of 2) before
			// its consumer starts, then one packet to channel a; b's consumer must see its packages in
			// the order sent, a's consumer its own
			n := 4 + c.N
			vrt.GoNamed("peer", func() {
				sentB := false
				for {
					wr := pipe.PeerRecv()
					if wr == nil {
						return
					}
					if len(wr) < 8 {
						continue
					}
					typ, channel := wr[0], int(binary.BigEndian.Uint16(wr[4:]))
					if typ == bufSetup {
						pipe.PeerSend(hdr(bufProtack, hx.EOM, channel, nil))
						continue
					}
					if wr[1]&hx.EOM != 0 && !sentB {
						sentB = true
						for i := 0; i < n; i++ {
							st := byte(0)
							if i == n-1 {
								st = hx.EOM
							}
							body := append(tdspkg.ReturnStatus{Value: int32(1000 + 2*i)}.Encode(), tdspkg.ReturnStatus{Value: int32(1001 + 2*i)}.Encode()...)
							pipe.PeerSend(hdr(4, st, channel, body))
						}
					}
				}
			})
			a, ida := newCh("a")
			b, idb := newCh("b")
			if a == nil || b == nil {
				return
			}
			_, _ = ida, idb
			ctx, cancel := vrt.WithTimeout(context.Background(), 10*time.Minute)
			defer cancel()
			if err := b.SendPackage(ctx, &tds.LanguagePackage{Cmd: "select many"}); err != nil {
				w.bad("C12|send-failed", err.Error())
				return
			}
			vrt.Settle() // the slow consumer: everything that fits has arrived, the reader waits for room
			for i := 0; i < 2*n; i++ {
				p, err := b.NextPackage(ctx, true)
				if err != nil {
					w.bad("C12|wrong-delivery", fmt.Sprintf("channel b: package %d of %d: error %v", i, 2*n, err))
					return
				}
				rsp, ok := p.(*tds.ReturnStatusPackage)
				if !ok || int(rsp.ReturnValue) != 1000+i {
					w.bad("C12|wrong-delivery", fmt.Sprintf("channel b: package %d is %v, the server sent RETURNSTATUS %d at that position", i, p, 1000+i))
					return
				}
			}
			w.facts["delivered"] = fmt.Sprint(2 * n)
		case "S4-unknown-channel-packet":
			vrt.GoNamed("peer", func() {
				peer(pipe, func(channel int, pipe *vrt.Pipe) {
					// between the two reply packets: packet(s) for a channel that never existed
					for i := 0; i < 1+c.N; i++ {
						pipe.PeerSend(hdr(4, hx.EOM, 77, tdspkg.ReturnStatus{Value: int32(777 + i)}.Encode()))
					}
				})
			})
			b, idb := newCh("b")
			if b == nil {
				return
			}
			ctx, cancel := vrt.WithTimeout(context.Background(), 10*time.Minute)
			defer cancel()
			if err := b.SendPackage(ctx, &tds.LanguagePackage{Cmd: "select 1"}); err != nil {
				w.bad("C12|send-failed", err.Error())
				return
			}
			var got []string
			connErrs := 0
			for len(got) < 3 && connErrs < 5 {
				p, err := b.NextPackage(ctx, true)
				if err != nil {
					if connReport(err) {
						connErrs += reports(err)
						continue
					}
					got = append(got, "error: "+err.Error())
					break
				}
				switch x := p.(type) {
				case *tds.ReturnStatusPackage:
					got = append(got, fmt.Sprintf("RETURNSTATUS %d", x.ReturnValue))
				case *tds.DonePackage:
					got = append(got, fmt.Sprintf("DONE %#x %d", uint16(x.Status), x.Count))
				}
			}
			vrt.Settle()
			for i := 0; i < 5; i++ {
				sctx, scancel := vrt.WithTimeout(context.Background(), time.Second)
				_, err := b.NextPackage(sctx, true)
				scancel()
				if connReport(err) {
					connErrs += reports(err)
					continue
				}
				break
			}
			want := []string{fmt.Sprintf("RETURNSTATUS %d", 100+idb), fmt.Sprintf("DONE 0x10 %d", idb), "DONE 0x0 0"}
			if strings.Join(got, "|") != strings.Join(want, "|") {
				w.bad("C12|unknown-channel-packet-disturbs", fmt.Sprintf("channel %d received %v, its script is %v", idb, got, want))
			}
			if connErrs < 1+c.N {
				w.bad("C12|unknown-channel-not-reported", fmt.Sprintf("%d packet(s) for channel 77 produced %d connection error reports", 1+c.N, connErrs))
			}
		}
	}
}

var reThread = regexp.MustCompile(`T\d+\(([a-z0-9]*)\) at ([^;\]]+)`)

func blockedClass(f *vrt.Failure) string {
	var parts []string
	for _, b := range f.Blocked {
		m := reThread.FindStringSubmatch(b)
		if m == nil {
			continue
		}
		name := m[1]
		if name == "" {
			name = "reader"
		}
		op := m[2]
		if strings.HasPrefix(op, "select") {
			op = "select"
		}
		parts = append(parts, name+"@"+strings.ReplaceAll(strings.TrimSpace(op), " ", "_"))
	}
	sort.Strings(parts)
	return strings.Join(parts, ",")
}

var rePos = regexp.MustCompile(`at \S+:\d+ (\S+)`)

func raceClass(r string) string {
	m := rePos.FindAllStringSubmatch(r, -1)
	var s []string
	for _, x := range m {
		s = append(s, x[1])
	}
	sort.Strings(s)
	if len(s) > 0 {
		return s[0]
	}
	return "?"
}

func verdict(c Case, w *world, x *vrt.Exec) (string, string) {
	if x.Failure != nil {
		switch x.Failure.Kind {
		case "deadlock", "livelock":
			return "C12|" + c.Scenario + "|" + x.Failure.Kind + "|" + blockedClass(x.Failure), x.Failure.String()
		}
		return "C12|" + c.Scenario + "|" + x.Failure.Kind, x.Failure.String() + "\n" + x.Failure.Stack
	}
	if len(x.Races) > 0 {
		return "C12|data-race|" + raceClass(x.Races[0]), strings.Join(x.Races, "\n")
	}
	if len(w.notes) > 0 {
		p := strings.SplitN(w.notes[0], "\x00", 2)
		return p[0], p[1]
	}
	return "", ""
}

func explore(c Case) {
	var w world
	outcomes := map[string]bool{}
	st := vrt.Explore(vrt.ExploreCfg{Base: vrt.Config{Preempt: true, Races: true, MaxSteps: 50000}, Bound: c.Bound, Deadline: h.Deadline(),
		Shard: h.R.Shard, NShards: h.R.NShards,
		Check: func(x *vrt.Exec) (string, string) {
			s, d := verdict(c, &w, x)
			if s == "" {
				var ks []string
				for k, v := range w.facts {
					ks = append(ks, k+"="+v)
				}
				sort.Strings(ks)
				outcomes[strings.Join(ks, ",")] = true
			}
			return s, d
		},
		OnViolation: func(sig, det string, choices []int, x *vrt.Exec) {
			cc := c
			cc.Choices = choices
			h.Violate(sig, fmt.Sprintf("scenario %s(n=%d), schedule %v: %s", c.Scenario, c.N, choices, det), cc)
		}}, body(c, &w))
	if st.Diverged != "" {
		h.Fatal("scenario %s: %s", c.Scenario, st.Diverged)
	}
	if st.Capped != "" {
		h.Cap(fmt.Sprintf("scenario %s(n=%d): %s after %d executions", c.Scenario, c.N, st.Capped, st.Execs))
	}
	h.EvalN(st.Execs, st.Execs)
	h.AddStates(st.Execs)
	h.AddTransitions(st.Steps)
	h.AddTraces(st.Execs)
	h.Section(c.Scenario, st.Execs)
	for o := range outcomes {
		h.Outcome(c.Scenario + ": " + o)
	}
}

func main() {
	h = hlib.Init("C12")
	var rc Case
	if h.ReplayCase(&rc) {
		var w world
		x, div := vrt.Replay(vrt.Config{Preempt: true, Races: true, MaxSteps: 50000}, rc.Choices, body(rc, &w))
		if div != "" {
			h.Fatal("replay: %s", div)
		}
		if s, d := verdict(rc, &w, x); s != "" {
			h.Violate(s, d, rc)
		}
		h.ReplayReport()
	}
	bound := 2
	if h.Thorough {
		bound = 3
	}
	cases := []Case{{Scenario: "S1-concurrent-newchannel", N: 2}, {Scenario: "S1-concurrent-newchannel", N: 3}, {Scenario: "S2-two-channels"}, {Scenario: "S3-close-while-other-in-use"},
		{Scenario: "S3-close-while-other-in-use", N: 1}, {Scenario: "S4-unknown-channel-packet"}, {Scenario: "S4-unknown-channel-packet", N: 1},
		{Scenario: "S5-slow-consumer-small-queue"}, {Scenario: "S5-slow-consumer-small-queue", N: 2}}
	for _, c := range cases {
		if h.Expired("scenario list cut short") {
			break
		}
		c.Bound = bound
		if c.Scenario == "S1-concurrent-newchannel" && c.N == 3 && !h.Thorough {
			c.Bound = 1
		}
		explore(c)
		h.Sample(func() interface{} { return c })
	}
	h.R.Extra["deviation_bound"] = bound
	h.Done()
}
