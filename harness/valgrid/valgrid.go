// Package valgrid enumerates the declared value grid shared by C04 and C05
// (see DESIGN.md §5 C04/C05): complete enumeration of each listed domain,
// no sampling.
package valgrid

import (
	"fmt"
	"math"
	"math/big"
	"strings"
	"time"
	"unicode/utf8"

	"github.com/SAP/go-dblib/asetypes"
	"verif/hlib"
	"verif/ref/tdsval"
)

// Val is one grid point: a data type and a value, JSON-serialisable.
type Val struct {
	DT  byte   `json:"dt"`
	Len int    `json:"len,omitempty"` // declared length (N-types with several widths, money, temporal)
	K   string `json:"k"`             // nil|u8|i16|i32|i64|u16|u32|u64|f32|f64|bool|str|bin|time|dec
	I   int64  `json:"i,omitempty"`
	U   uint64 `json:"u,omitempty"`
	S   string `json:"s,omitempty"`
	X   []byte `json:"x,omitempty"`
	Day int    `json:"day,omitempty"` // days since 1970-01-01
	Ns  int64  `json:"ns,omitempty"`  // nanoseconds of day
	P   int    `json:"p,omitempty"`
	Sc  int    `json:"sc,omitempty"`
	Cls string `json:"cls,omitempty"` // value class for signatures
}

func (v Val) Name() string { return tdsval.Names[v.DT] }

func (v Val) String() string {
	switch v.K {
	case "nil":
		return fmt.Sprintf("%s NULL", v.Name())
	case "time":
		return fmt.Sprintf("%s(%d) %s", v.Name(), v.Len, v.Time().Format("2006-01-02T15:04:05.000000000"))
	case "dec":
		return fmt.Sprintf("%s(%d,%d) unscaled %s", v.Name(), v.P, v.Sc, v.S)
	case "str":
		return fmt.Sprintf("%s %+q", v.Name(), v.S)
	case "bin":
		if len(v.X) > 16 {
			return fmt.Sprintf("%s %d bytes %x…", v.Name(), len(v.X), v.X[:16])
		}
		return fmt.Sprintf("%s %x", v.Name(), v.X)
	case "f32":
		return fmt.Sprintf("%s bits %08x", v.Name(), uint32(v.U))
	case "f64":
		return fmt.Sprintf("%s bits %016x", v.Name(), v.U)
	case "bool":
		return fmt.Sprintf("%s %v", v.Name(), v.I != 0)
	case "u8", "u16", "u32", "u64":
		return fmt.Sprintf("%s %s %d", v.Name(), v.K, v.U)
	}
	return fmt.Sprintf("%s %s %d", v.Name(), v.K, v.I)
}

// Time returns the time value of a temporal grid point.
func (v Val) Time() time.Time {
	y, m, d := tdsval.CivilFromDays(v.Day)
	return time.Date(y, time.Month(m), d, 0, 0, 0, 0, time.UTC).Add(time.Duration(v.Ns))
}

// Ref returns the value in the reference codec's representation.
func (v Val) Ref() interface{} {
	switch v.K {
	case "nil":
		return nil
	case "u8":
		return uint8(v.U)
	case "i16":
		return int16(v.I)
	case "i32":
		return int32(v.I)
	case "i64":
		return v.I
	case "u16":
		return uint16(v.U)
	case "u32":
		return uint32(v.U)
	case "u64":
		return v.U
	case "f32":
		return math.Float32frombits(uint32(v.U))
	case "f64":
		return math.Float64frombits(v.U)
	case "bool":
		return v.I != 0
	case "str":
		return v.S
	case "bin":
		return v.X
	case "time":
		return v.Time()
	case "dec":
		x, _ := new(big.Int).SetString(v.S, 10)
		return x
	}
	panic("valgrid: bad kind " + v.K)
}

// Lib returns the value in the library's representation.
func (v Val) Lib() interface{} {
	if v.K != "dec" {
		return v.Ref()
	}
	x, _ := new(big.Int).SetString(v.S, 10)
	d, err := asetypes.NewDecimal(v.P, v.Sc)
	if err != nil {
		panic(err)
	}
	d.SetBytes(new(big.Int).Abs(x).Bytes())
	if x.Sign() < 0 {
		d.Negate()
	}
	return d
}

// NonTrivial: not NULL and not the zero value.
func (v Val) NonTrivial() bool {
	switch v.K {
	case "nil":
		return false
	case "dec":
		return v.S != "0"
	case "str":
		return v.S != ""
	case "bin":
		return len(v.X) > 0
	case "time":
		return true
	}
	return v.I != 0 || v.U != 0
}

// SameValue compares a value produced by the library with the grid value.
// tol is the admissible distance for temporal values (0 = exact).
func SameValue(v Val, got interface{}, tol time.Duration) (bool, string) {
	want := v.Lib()
	switch w := want.(type) {
	case nil:
		if got == nil {
			return true, ""
		}
		// the library represents NULL money/decimal as a Decimal without value
		if d, ok := got.(*asetypes.Decimal); ok && d.String() == "<nil>" {
			return true, ""
		}
		return false, fmt.Sprintf("want NULL, got %T %v", got, got)
	case float32:
		g, ok := got.(float32)
		if !ok || math.Float32bits(g) != math.Float32bits(w) {
			return false, fmt.Sprintf("want float32 bits %08x, got %T %v", math.Float32bits(w), got, got)
		}
		return true, ""
	case float64:
		g, ok := got.(float64)
		if !ok || math.Float64bits(g) != math.Float64bits(w) {
			return false, fmt.Sprintf("want float64 bits %016x, got %T %v", math.Float64bits(w), got, got)
		}
		return true, ""
	case time.Time:
		g, ok := got.(time.Time)
		if !ok {
			return false, fmt.Sprintf("want time, got %T %v", got, got)
		}
		d := g.Sub(w)
		if d < 0 {
			d = -d
		}
		if d > tol || (tol > 0 && d >= tol) {
			return false, fmt.Sprintf("want %s, got %s (off by %v)", w.Format("2006-01-02T15:04:05.000000000"), g.Format("2006-01-02T15:04:05.000000000"), g.Sub(w))
		}
		return true, ""
	case *asetypes.Decimal:
		g, ok := got.(*asetypes.Decimal)
		if !ok || g == nil || g.String() == "<nil>" {
			return false, fmt.Sprintf("want decimal %s, got %T %v", w.Int(), got, got)
		}
		if g.Int().Cmp(w.Int()) != 0 {
			return false, fmt.Sprintf("want unscaled %s, got unscaled %s", w.Int(), g.Int())
		}
		return true, ""
	case []byte:
		g, ok := got.([]byte)
		if !ok || string(g) != string(w) {
			return false, fmt.Sprintf("want %d bytes %x, got %T %x", len(w), trunc(w), got, got)
		}
		return true, ""
	case string:
		g, ok := got.(string)
		if !ok || g != w {
			return false, fmt.Sprintf("want %+q, got %T %+q", w, got, got)
		}
		return true, ""
	}
	if got != want {
		return false, fmt.Sprintf("want %T %v, got %T %v", want, want, got, got)
	}
	return true, ""
}

func trunc(b []byte) []byte {
	if len(b) > 24 {
		return b[:24]
	}
	return b
}

// Tolerance of the classic temporal types.
func Tolerance(v Val) time.Duration {
	switch v.DT {
	case tdsval.TIME, tdsval.TIMEN, tdsval.DATETIME:
		return time.Second / 300
	case tdsval.SHORTDATE:
		return time.Minute
	case tdsval.DATETIMEN:
		if v.Len == 4 {
			return time.Minute
		}
		return time.Second / 300
	}
	return 0
}

var (
	d1970_0001 = tdsval.DaysFromCivil(1, 1, 1)
	d1970_9999 = tdsval.DaysFromCivil(9999, 12, 31)
	d1900      = tdsval.DaysFromCivil(1900, 1, 1)
)

func dayClass(day int, ns int64) string {
	switch {
	case day < d1900 && ns != 0:
		return "pre-1900-with-time"
	case day < d1900:
		return "pre-1900-midnight"
	}
	return "from-1900"
}

func runeClass(s string) string {
	if strings.HasSuffix(s, "\x00") {
		return "trailing-nul"
	}
	max := rune(0)
	for _, r := range s {
		if r > max {
			max = r
		}
	}
	switch {
	case max < 0x80:
		return "ascii"
	case max <= 0xFF:
		return "latin1"
	case max <= 0xFFFF:
		return "bmp"
	}
	return "astral"
}

// Thin > 0 makes Enumerate pass only every Thin-th point of the large
// sections (the small ones are always complete): used for the package leg.
var Thin int

var largeSections = map[string]bool{"days": true, "ticks": true, "codepoints": true, "smalldatetime": true, "float32-all": true, "int16": true, "float64": true, "microseconds": true}

// Enumerate calls fn for every grid point owned by this shard.
func Enumerate(h *hlib.H, fn func(Val)) {
	idx := 0
	cnt := 0
	mine := func() bool { idx++; return h.Mine(idx) }
	emit := func(sec string, v Val) {
		if Thin > 0 && largeSections[sec] {
			cnt++
			if cnt%Thin != 0 {
				return
			}
		}
		fn(v)
		if Thin > 0 {
			sec = "pkg-leg:" + sec
		}
		h.Section(sec, 1)
	}
	thorough := h.Thorough

	// ---- NULL for every nullable type
	if mine() {
		for _, dt := range []byte{tdsval.INTN, tdsval.UINTN, tdsval.FLTN, tdsval.MONEYN, tdsval.DECN, tdsval.NUMN, tdsval.DATEN, tdsval.TIMEN, tdsval.DATETIMEN, tdsval.BIGDATETIMEN, tdsval.BIGTIMEN,
			tdsval.CHAR, tdsval.VARCHAR, tdsval.LONGCHAR, tdsval.BINARY, tdsval.VARBINARY, tdsval.LONGBINARY} {
			emit("null", Val{DT: dt, K: "nil", Cls: "null"})
		}
		emit("bit", Val{DT: tdsval.BIT, K: "bool", I: 0, Cls: "false"})
		emit("bit", Val{DT: tdsval.BIT, K: "bool", I: 1, Cls: "true"})
	}

	// ---- integers
	if mine() {
		for i := 0; i < 256; i++ {
			emit("int8", Val{DT: tdsval.INT1, K: "u8", U: uint64(i), Cls: "u8"})
			emit("int8", Val{DT: tdsval.INTN, K: "u8", U: uint64(i), Len: 1, Cls: "u8"})
			emit("int8", Val{DT: tdsval.UINTN, K: "u8", U: uint64(i), Len: 1, Cls: "u8"})
		}
	}
	if mine() {
		for i := -32768; i <= 32767; i++ {
			emit("int16", Val{DT: tdsval.INT2, K: "i16", I: int64(i), Cls: "i16"})
			emit("int16", Val{DT: tdsval.INTN, K: "i16", I: int64(i), Len: 2, Cls: "i16"})
		}
	}
	if mine() {
		for i := 0; i <= 65535; i++ {
			emit("int16", Val{DT: tdsval.UINT2, K: "u16", U: uint64(i), Cls: "u16"})
			emit("int16", Val{DT: tdsval.UINTN, K: "u16", U: uint64(i), Len: 2, Cls: "u16"})
		}
	}
	var grid64 []int64
	seen := map[int64]bool{}
	add64 := func(x int64) {
		if !seen[x] {
			seen[x] = true
			grid64 = append(grid64, x)
		}
	}
	for k := uint(0); k < 64; k++ {
		for d := int64(-2); d <= 2; d++ {
			add64(int64(uint64(1)<<k) + d)
			add64(-int64(uint64(1)<<k) + d)
		}
	}
	add64(math.MaxInt64)
	add64(math.MinInt64)
	for i := int64(-32768); i <= 65535; i += 1 {
		add64(i)
	}
	if mine() {
		for _, x := range grid64 {
			if x >= math.MinInt32 && x <= math.MaxInt32 {
				emit("int32/64", Val{DT: tdsval.INT4, K: "i32", I: x, Cls: "i32"})
				emit("int32/64", Val{DT: tdsval.INTN, K: "i32", I: x, Len: 4, Cls: "i32"})
				emit("money", Val{DT: tdsval.SHORTMONEY, K: "dec", S: fmt.Sprint(x), P: 10, Sc: 4, Len: 4, Cls: moneyCls(x)})
				emit("money", Val{DT: tdsval.MONEYN, K: "dec", S: fmt.Sprint(x), P: 10, Sc: 4, Len: 4, Cls: moneyCls(x)})
			}
			if x >= 0 && x <= math.MaxUint32 {
				emit("int32/64", Val{DT: tdsval.UINT4, K: "u32", U: uint64(x), Cls: "u32"})
				emit("int32/64", Val{DT: tdsval.UINTN, K: "u32", U: uint64(x), Len: 4, Cls: "u32"})
			}
			emit("int32/64", Val{DT: tdsval.INT8, K: "i64", I: x, Cls: "i64"})
			emit("int32/64", Val{DT: tdsval.INTN, K: "i64", I: x, Len: 8, Cls: "i64"})
			emit("int32/64", Val{DT: tdsval.UINT8, K: "u64", U: uint64(x), Cls: "u64"})
			emit("int32/64", Val{DT: tdsval.UINTN, K: "u64", U: uint64(x), Len: 8, Cls: "u64"})
			emit("money", Val{DT: tdsval.MONEY, K: "dec", S: fmt.Sprint(x), P: 20, Sc: 4, Len: 8, Cls: moneyCls(x)})
			emit("money", Val{DT: tdsval.MONEYN, K: "dec", S: fmt.Sprint(x), P: 20, Sc: 4, Len: 8, Cls: moneyCls(x)})
		}
	}

	// ---- floats
	mant32 := []uint32{0, 1, 1<<22 - 1, 1 << 22, 1<<23 - 1, 0x2AAAAA, 0x555555}
	for sign := uint32(0); sign < 2; sign++ {
		if !mine() {
			continue
		}
		for e := uint32(0); e < 256; e++ {
			for _, m := range mant32 {
				bits := sign<<31 | e<<23 | m
				emit("float32", Val{DT: tdsval.FLT4, K: "f32", U: uint64(bits), Cls: fcls(e == 255, m)})
				emit("float32", Val{DT: tdsval.FLTN, K: "f32", U: uint64(bits), Len: 4, Cls: fcls(e == 255, m)})
			}
		}
	}
	if thorough {
		// all 2^32 float32 bit patterns, in 4096 chunks
		for c := uint64(0); c < 4096; c++ {
			if !mine() {
				continue
			}
			if h.Expired("float32 full sweep cut short") {
				break
			}
			for b := c << 20; b < (c+1)<<20; b++ {
				emit("float32-all", Val{DT: tdsval.FLT4, K: "f32", U: b, Cls: "any"})
			}
		}
	}
	mant64 := []uint64{0, 1, 1<<51 - 1, 1 << 51, 1<<52 - 1, 0xAAAAAAAAAAAAA, 0x5555555555555, 0x8000000000001, 0xFFFFFFFF}
	for sign := uint64(0); sign < 2; sign++ {
		if !mine() {
			continue
		}
		for e := uint64(0); e < 2048; e++ {
			for _, m := range mant64 {
				bits := sign<<63 | e<<52 | m
				emit("float64", Val{DT: tdsval.FLT8, K: "f64", U: bits, Cls: fcls(e == 2047, uint32(m))})
				emit("float64", Val{DT: tdsval.FLTN, K: "f64", U: bits, Len: 8, Cls: fcls(e == 2047, uint32(m))})
			}
		}
	}

	// ---- every day 0001-01-01 .. 9999-12-31
	tickSet := []int64{0, 1, 299, 300, 25919999}
	const chunkDays = 20000
	for start := d1970_0001; start <= d1970_9999; start += chunkDays {
		if !mine() {
			continue
		}
		for day := start; day < start+chunkDays && day <= d1970_9999; day++ {
			c0 := dayClass(day, 0)
			emit("days", Val{DT: tdsval.DATE, K: "time", Day: day, Len: 4, Cls: c0})
			emit("days", Val{DT: tdsval.DATEN, K: "time", Day: day, Len: 4, Cls: c0})
			emit("days", Val{DT: tdsval.BIGDATETIMEN, K: "time", Day: day, Len: 8, Cls: c0})
			emit("days", Val{DT: tdsval.BIGDATETIMEN, K: "time", Day: day, Ns: 86399999999000, Len: 8, Cls: dayClass(day, 1)})
			for _, k := range tickSet {
				ns := tdsval.TickNanos(k)
				emit("days", Val{DT: tdsval.DATETIME, K: "time", Day: day, Ns: ns, Len: 8, Cls: dayClass(day, ns)})
				emit("days", Val{DT: tdsval.DATETIMEN, K: "time", Day: day, Ns: ns, Len: 8, Cls: dayClass(day, ns)})
			}
		}
	}

	// ---- every 1/300 s tick of a day
	tickDays := []int{tdsval.DaysFromCivil(1753, 1, 1), tdsval.DaysFromCivil(1899, 12, 31), d1900, d1900 + 1, d1970_9999}
	const chunkTicks = 100000
	for start := int64(0); start < 25920000; start += chunkTicks {
		if !mine() {
			continue
		}
		for k := start; k < start+chunkTicks && k < 25920000; k++ {
			ns := tdsval.TickNanos(k)
			emit("ticks", Val{DT: tdsval.TIME, K: "time", Day: d1970_0001, Ns: ns, Len: 4, Cls: "tick"})
			emit("ticks", Val{DT: tdsval.TIMEN, K: "time", Day: d1970_0001, Ns: ns, Len: 4, Cls: "tick"})
			for di, day := range tickDays {
				if !thorough && di != 1 && di != 2 && k%7 != 0 {
					continue // quick: all ticks on 1899-12-31 and 1900-01-01, every 7th on the others
				}
				emit("ticks", Val{DT: tdsval.DATETIME, K: "time", Day: day, Ns: ns, Len: 8, Cls: dayClass(day, ns)})
			}
		}
	}

	// ---- smalldatetime: days x minutes
	minSet := []int64{0, 1, 59, 60, 1439}
	daySet := []int{0, 1, 36524, 65534, 65535}
	for start := 0; start < 65536; start += 1024 {
		if !mine() {
			continue
		}
		for d := start; d < start+1024; d++ {
			if thorough {
				for m := int64(0); m < 1440; m++ {
					emit("smalldatetime", Val{DT: tdsval.SHORTDATE, K: "time", Day: d1900 + d, Ns: m * 60e9, Len: 4, Cls: "minute"})
				}
			} else {
				for _, m := range minSet {
					emit("smalldatetime", Val{DT: tdsval.SHORTDATE, K: "time", Day: d1900 + d, Ns: m * 60e9, Len: 4, Cls: "minute"})
				}
			}
			for _, m := range minSet {
				emit("smalldatetime", Val{DT: tdsval.DATETIMEN, K: "time", Day: d1900 + d, Ns: m * 60e9, Len: 4, Cls: "minute"})
			}
		}
	}
	if mine() && !thorough {
		for _, d := range daySet {
			for m := int64(0); m < 1440; m++ {
				emit("smalldatetime", Val{DT: tdsval.SHORTDATE, K: "time", Day: d1900 + d, Ns: m * 60e9, Len: 4, Cls: "minute"})
				emit("smalldatetime", Val{DT: tdsval.SHORTDATE, K: "time", Day: d1900 + d, Ns: m*60e9 + 59e9 + 999e6, Len: 4, Cls: "minute-with-seconds"})
			}
		}
	}

	// ---- microsecond types
	usSet := []int64{0, 1, 999, 1000, 999999, 1000000, 86399999999}
	bigDays := []int{tdsval.DaysFromCivil(0, 1, 1), d1970_0001, tdsval.DaysFromCivil(1899, 12, 31), d1900, tdsval.DaysFromCivil(2024, 2, 29), d1970_9999}
	for hh := int64(0); hh < 24; hh++ {
		if !mine() {
			continue
		}
		var us []int64
		if hh == 0 {
			us = append(us, usSet...)
		}
		for mm := int64(0); mm < 60; mm++ {
			for ss := int64(0); ss < 60; ss++ {
				us = append(us, hh*3600000000+mm*60000000+ss*1000000, hh*3600000000+mm*60000000+ss*1000000+123457)
			}
		}
		for _, u := range us {
			emit("microseconds", Val{DT: tdsval.BIGTIMEN, K: "time", Day: d1970_0001, Ns: u * 1000, Len: 8, Cls: "us"})
			for _, day := range bigDays {
				emit("microseconds", Val{DT: tdsval.BIGDATETIMEN, K: "time", Day: day, Ns: u * 1000, Len: 8, Cls: dayClass(day, u)})
			}
		}
	}

	// ---- decimals: all 741 (p,s)
	for p := 1; p <= 38; p++ {
		if !mine() {
			continue
		}
		ten := big.NewInt(10)
		var vals []*big.Int
		vals = append(vals, big.NewInt(0))
		for k := 0; k <= p; k++ {
			pk := new(big.Int).Exp(ten, big.NewInt(int64(k)), nil)
			for _, x := range []*big.Int{pk, new(big.Int).Sub(pk, big.NewInt(1)), new(big.Int).Add(pk, big.NewInt(1))} {
				if x.Cmp(new(big.Int).Exp(ten, big.NewInt(int64(p)), nil)) < 0 && x.Sign() > 0 {
					vals = append(vals, x, new(big.Int).Neg(x))
				}
			}
		}
		// byte-boundary magnitudes
		for b := uint(7); b <= 127; b += 8 {
			for d := int64(-1); d <= 1; d++ {
				x := new(big.Int).Add(new(big.Int).Lsh(big.NewInt(1), b), big.NewInt(d))
				if x.Cmp(new(big.Int).Exp(ten, big.NewInt(int64(p)), nil)) < 0 {
					vals = append(vals, x, new(big.Int).Neg(x))
				}
			}
		}
		for s := 0; s <= p; s++ {
			for _, x := range vals {
				cls := "positive"
				if x.Sign() < 0 {
					cls = "negative"
				} else if x.Sign() == 0 {
					cls = "zero"
				}
				emit("decimal", Val{DT: tdsval.DECN, K: "dec", S: x.String(), P: p, Sc: s, Cls: cls})
				emit("decimal", Val{DT: tdsval.NUMN, K: "dec", S: x.String(), P: p, Sc: s, Cls: cls})
			}
		}
	}

	// ---- binary
	pat := func(n int, k int) []byte {
		b := make([]byte, n)
		for i := range b {
			switch k {
			case 0:
				b[i] = 0
			case 1:
				b[i] = 0xff
			default:
				b[i] = byte(i*7 + 1)
			}
		}
		return b
	}
	if mine() {
		for n := 1; n <= 255; n++ {
			for k := 0; k < 3; k++ {
				for _, dt := range []byte{tdsval.BINARY, tdsval.VARBINARY} {
					emit("binary", Val{DT: dt, K: "bin", X: pat(n, k), Cls: fmt.Sprintf("pattern%d", k)})
				}
			}
		}
		for _, n := range []int{1, 255, 256, 65535, 65536} {
			for k := 0; k < 3; k++ {
				for _, dt := range []byte{tdsval.LONGBINARY, tdsval.IMAGE} {
					emit("binary", Val{DT: dt, K: "bin", X: pat(n, k), Cls: fmt.Sprintf("pattern%d", k)})
				}
			}
		}
	}

	// ---- character types: every code point as a one-rune string
	charTypes := []byte{tdsval.CHAR, tdsval.VARCHAR, tdsval.LONGCHAR, tdsval.TEXT}
	for start := rune(0); start <= 0x10FFFF; start += 0x4000 {
		if !mine() {
			continue
		}
		for r := start; r < start+0x4000 && r <= 0x10FFFF; r++ {
			if r >= 0xD800 && r <= 0xDFFF {
				continue
			}
			s := string(r)
			cls := runeClass(s)
			emit("codepoints", Val{DT: tdsval.UNITEXT, K: "str", S: s, Cls: cls})
			dt := charTypes[int(r)%len(charTypes)]
			if thorough {
				for _, dt := range charTypes {
					emit("codepoints", Val{DT: dt, K: "str", S: s, Cls: cls})
				}
			} else {
				emit("codepoints", Val{DT: dt, K: "str", S: s, Cls: cls})
			}
		}
	}
	if mine() {
		bset := []rune{0, 1, ' ', 'A', 0x7f, 0x80, 0xe9, 0xff, 0x100, 0x7ff, 0x800, 0x20ac, 0xd7ff, 0xe000, 0xfeff, 0xfffd, 0xffff, 0x10000, 0x1f600, 0x10ffff, '\n', '"', '\\', 0x3b1, 0x4e2d, 0x202e, 0x1d11e, 0xe0001, 0xfffe, 0x85}
		for _, a := range bset {
			for _, b := range bset {
				s := string([]rune{a, b})
				emit("rune-pairs", Val{DT: tdsval.UNITEXT, K: "str", S: s, Cls: runeClass(s) + "-pair"})
				emit("rune-pairs", Val{DT: tdsval.VARCHAR, K: "str", S: s, Cls: runeClass(s) + "-pair"})
				emit("rune-pairs", Val{DT: tdsval.LONGCHAR, K: "str", S: s, Cls: runeClass(s) + "-pair"})
			}
		}
		for n := 1; n <= 255; n++ {
			s := strings.Repeat("abcdefghij", 26)[:n]
			for _, dt := range []byte{tdsval.CHAR, tdsval.VARCHAR, tdsval.LONGCHAR, tdsval.TEXT, tdsval.UNITEXT} {
				emit("string-lengths", Val{DT: dt, K: "str", S: s, Cls: "ascii-len"})
			}
		}
		long := strings.Repeat("é日😀x", 20000)
		for _, n := range []int{256, 65535, 65536} {
			s := long
			for len(s) > n || !utf8.ValidString(s) {
				s = s[:len(s)-1]
			}
			emit("string-lengths", Val{DT: tdsval.LONGCHAR, K: "str", S: s, Cls: "long"})
			emit("string-lengths", Val{DT: tdsval.UNITEXT, K: "str", S: s, Cls: "long"})
		}
	}
}

func moneyCls(x int64) string {
	switch {
	case x < 0:
		return "negative"
	case x > math.MaxUint32:
		return "high-word"
	}
	return "low-word"
}

func fcls(special bool, m uint32) string {
	switch {
	case special && m == 0:
		return "inf"
	case special:
		return "nan"
	}
	return "finite"
}
