// C16 — decimal text conversion preserves the numeric value.
// Bounded-exhaustive enumeration over the real asetypes.Decimal, oracle math/big.
package main

import (
	"fmt"
	"math/big"
	"regexp"
	"strings"

	"github.com/SAP/go-dblib/asetypes"
	"verif/hlib"
)

type Case struct {
	Kind string `json:"kind"` // "ctor" | "fmt" | "parse"
	P    int    `json:"p"`
	S    int    `json:"s"`
	Int  string `json:"int,omitempty"`  // unscaled integer (fmt)
	Text string `json:"text,omitempty"` // input text (parse)
	Ops  []string `json:"ops,omitempty"` // kind "hist": operations on ONE decimal object, observed at the end
}

var h *hlib.H

var pow10 [80]*big.Int

func init() {
	pow10[0] = big.NewInt(1)
	for i := 1; i < len(pow10); i++ {
		pow10[i] = new(big.Int).Mul(pow10[i-1], big.NewInt(10))
	}
}

// refString is the canonical text of unscaled/10^s, written from the statement.
func refString(x *big.Int, s int) string {
	neg := x.Sign() < 0
	a := new(big.Int).Abs(x)
	q, r := new(big.Int).QuoRem(a, pow10[s], new(big.Int))
	frac := ""
	if s > 0 {
		frac = fmt.Sprintf("%0*s", s, r.String())
		frac = strings.TrimRight(frac, "0")
	}
	if frac == "" {
		frac = "0"
	}
	out := q.String() + "." + frac
	if neg {
		out = "-" + out
	}
	return out
}

var (
	reCanon   = regexp.MustCompile(`^-?[0-9]+(\.[0-9]+)?$`)
	reLenient = regexp.MustCompile(`^[+-]?[0-9]*\.?[0-9]*$`)
)

// refParse classifies text (after trimming surrounding white space, which the
// statement's quantifier lists as an accepted spelling).
// numeral: the text denotes a number at all; canon: it is a plain numeral
// "-?digits(.digits)?"; val: the exact value.
func refParse(text string) (numeral, canon bool, val *big.Rat, fracDigits int) {
	t := strings.TrimSpace(text)
	if !reLenient.MatchString(t) || !strings.ContainsAny(t, "0123456789") {
		return false, false, nil, 0
	}
	canon = reCanon.MatchString(t)
	body := strings.TrimLeft(t, "+-")
	neg := strings.HasPrefix(t, "-")
	parts := strings.SplitN(body, ".", 2)
	l := parts[0]
	r := ""
	if len(parts) > 1 {
		r = parts[1]
	}
	n, _ := new(big.Int).SetString("0"+l+r, 10)
	if neg {
		n.Neg(n)
	}
	val = new(big.Rat).SetFrac(n, pow10[len(r)])
	return true, canon, val, len(r)
}

func mkDec(p, s int, x *big.Int) (*asetypes.Decimal, error) {
	d, err := asetypes.NewDecimal(p, s)
	if err != nil {
		return nil, err
	}
	d.SetBytes(new(big.Int).Abs(x).Bytes())
	if x.Sign() < 0 {
		d.Negate()
	}
	return d, nil
}

func run(c Case) {
	switch c.Kind {
	case "hist":
		runHist(c)
	case "ctor":
		var d *asetypes.Decimal
		var err error
		pan, msg := hlib.Catch(func() { d, err = asetypes.NewDecimal(c.P, c.S) })
		valid := c.P >= 1 && c.P <= 38 && c.S >= 0 && c.S <= c.P
		invalid := c.P < 0 || c.P > 38 || c.S < 0 || c.S > c.P
		h.Eval(invalid)
		switch {
		case pan:
			h.Violate("C16|ctor|panic", fmt.Sprintf("NewDecimal(%d,%d) panicked: %s", c.P, c.S, msg), c)
		case valid && err != nil:
			h.Violate("C16|ctor|valid-rejected", fmt.Sprintf("NewDecimal(%d,%d) = %v", c.P, c.S, err), c)
		case invalid && err == nil:
			cls := "other"
			if c.S < 0 {
				cls = "negative-scale"
			}
			h.Violate("C16|ctor|invalid-accepted|"+cls, fmt.Sprintf("NewDecimal(%d,%d) accepted an invalid precision/scale (got %v)", c.P, c.S, d), c)
		}
		if err == nil && !pan {
			h.Outcome("ctor-ok")
		} else {
			h.Outcome("ctor-err")
		}
	case "fmt":
		x, _ := new(big.Int).SetString(c.Int, 10)
		d, err := mkDec(c.P, c.S, x)
		if err != nil {
			h.Fatal("mkDec(%d,%d): %v", c.P, c.S, err)
		}
		h.Eval(x.Sign() != 0)
		var got string
		pan, msg := hlib.Catch(func() { got = d.String() })
		if pan {
			h.Violate("C16|String|panic", fmt.Sprintf("(%d,%d) unscaled %s: String panicked: %s", c.P, c.S, c.Int, msg), c)
			return
		}
		want := refString(x, c.S)
		if got != want {
			h.Violate("C16|String|wrong-text", fmt.Sprintf("(%d,%d) unscaled %s: String()=%q want %q", c.P, c.S, c.Int, got, want), c)
			return
		}
		// parse back
		d2, err := asetypes.NewDecimalString(c.P, c.S, got)
		if err != nil {
			h.Violate("C16|roundtrip|rejected", fmt.Sprintf("(%d,%d) unscaled %s: parsing own text %q failed: %v", c.P, c.S, c.Int, got, err), c)
			return
		}
		if !d.Cmp(*d2) || d2.Int().Cmp(x) != 0 {
			h.Violate("C16|roundtrip|value-changed", fmt.Sprintf("(%d,%d) unscaled %s: text %q parsed back to unscaled %s", c.P, c.S, c.Int, got, d2.Int()), c)
		}
		h.Outcome("fmt-ok")
	case "parse":
		d, err := asetypes.NewDecimal(c.P, c.S)
		if err != nil {
			h.Fatal("NewDecimal(%d,%d): %v", c.P, c.S, err)
		}
		before := big.NewInt(7)
		if c.P == 0 {
			before = big.NewInt(0)
		}
		d.SetBytes(before.Bytes())
		numeral, canon, val, _ := refParse(c.Text)
		representable := false
		var wantUnscaled *big.Int
		if numeral {
			sc := new(big.Rat).Mul(val, new(big.Rat).SetInt(pow10[c.S]))
			if sc.IsInt() {
				wantUnscaled = new(big.Int).Set(sc.Num())
				if new(big.Int).Abs(wantUnscaled).Cmp(pow10[c.P]) < 0 {
					representable = true
				}
			}
		}
		h.Eval(numeral && val.Sign() != 0)
		var perr error
		pan, msg := hlib.Catch(func() { perr = d.SetString(c.Text) })
		if pan {
			h.Violate("C16|SetString|panic", fmt.Sprintf("(%d,%d) SetString(%q) panicked: %s", c.P, c.S, c.Text, msg), c)
			return
		}
		if perr != nil {
			h.Outcome("parse-rejected")
			if d.Int().Cmp(before) != 0 {
				h.Violate("C16|SetString|error-but-value-changed", fmt.Sprintf("(%d,%d) SetString(%q) failed (%v) but changed the value to %s", c.P, c.S, c.Text, perr, d.Int()), c)
			}
			// MUST accept: canonical numeral, fractional digits <= scale, representable
			_, _, _, fd := refParse(c.Text)
			if canon && representable && fd <= c.S {
				h.Violate("C16|SetString|valid-rejected", fmt.Sprintf("(%d,%d) SetString(%q) rejected: %v", c.P, c.S, c.Text, perr), c)
			}
			return
		}
		h.Outcome("parse-accepted")
		got := d.Int()
		switch {
		case !numeral:
			h.Violate("C16|SetString|malformed-accepted|"+malClass(c.Text), fmt.Sprintf("(%d,%d) SetString(%q) accepted malformed input as unscaled %s", c.P, c.S, c.Text, got), c)
		case !representable:
			cls := "too-many-digits"
			if wantUnscaled == nil {
				cls = "surplus-fraction-digits"
			}
			h.Violate("C16|SetString|unrepresentable-accepted|"+cls, fmt.Sprintf("(%d,%d) SetString(%q) accepted; value %s is not representable, stored unscaled %s (String()=%s)", c.P, c.S, c.Text, val.FloatString(c.S+3), got, safeString(d)), c)
		case got.Cmp(wantUnscaled) != 0:
			h.Violate("C16|SetString|value-changed", fmt.Sprintf("(%d,%d) SetString(%q) stored unscaled %s, exact value is %s", c.P, c.S, c.Text, got, wantUnscaled), c)
		}
	}
}

// histAlphabet: operations a caller can apply to one *Decimal. String, Int,
// IsNeg, Bytes and Cmp are pure observations in the model — but they are
// operations of the history, because an implementation may remember things.
var histAlphabet = []string{"String", "Negate", "SetInt64:0", "SetInt64:7", "SetInt64:-120", "SetString:1.5", "SetString:-0.25", "SetString:99999", "SetString:abc", "SetString:0.125",
	"SetBytes:", "SetBytes:0100", "Int", "IsNeg", "Bytes", "Cmp", "Scale:1", "Scale:3"}

// runHist applies c.Ops to one object and to the model (p, s, x), then observes.
func runHist(c Case) {
	d, err := asetypes.NewDecimal(c.P, c.S)
	if err != nil {
		h.Fatal("NewDecimal(%d,%d): %v", c.P, c.S, err)
	}
	p, sc, x := c.P, c.S, new(big.Int)
	h.Eval(len(c.Ops) > 1)
	h.Section("object-history", 1)
	fail := func(sig, f string, a ...interface{}) {
		h.Violate("C16|history|"+sig, fmt.Sprintf("(%d,%d) after %v: ", c.P, c.S, c.Ops)+fmt.Sprintf(f, a...), c)
	}
	pan, msg := hlib.Catch(func() {
		for _, op := range c.Ops {
			arg := ""
			if i := strings.IndexByte(op, ':'); i >= 0 {
				op, arg = op[:i], op[i+1:]
			}
			switch op {
			case "String":
				_ = d.String()
			case "Int":
				_ = d.Int()
			case "IsNeg":
				_ = d.IsNegative()
			case "Bytes":
				_ = d.Bytes()
			case "Cmp":
				_ = d.Cmp(*d)
			case "Negate":
				d.Negate()
				x.Neg(x)
			case "SetInt64":
				var v int64
				fmt.Sscan(arg, &v)
				d.SetInt64(v)
				x.SetInt64(v)
			case "SetBytes":
				var b []byte
				fmt.Sscanf(arg, "%x", &b)
				d.SetBytes(b)
				x.SetBytes(b)
			case "Scale":
				var v int
				fmt.Sscan(arg, &v)
				if v <= p {
					d.Scale = v
					sc = v
				}
			case "SetString":
				numeral, canon, val, fd := refParse(arg)
				var want *big.Int
				if numeral && canon && fd <= sc {
					w := new(big.Rat).Mul(val, new(big.Rat).SetInt(pow10[sc]))
					if w.IsInt() && new(big.Int).Abs(w.Num()).Cmp(pow10[p]) < 0 {
						want = new(big.Int).Set(w.Num())
					}
				}
				perr := d.SetString(arg)
				switch {
				case want != nil && perr != nil:
					fail("valid-rejected", "SetString(%q) rejected: %v", arg, perr)
				case want == nil && perr == nil:
					fail("unrepresentable-accepted", "SetString(%q) accepted, stored %s", arg, d.Int())
				case want != nil:
					x.Set(want)
				}
			}
		}
	})
	if pan {
		fail("panic", "%s", msg)
		return
	}
	if got := d.Int(); got.Cmp(x) != 0 {
		fail("value", "unscaled value is %s, the model says %s", got, x)
		return
	}
	if d.IsNegative() != (x.Sign() < 0) {
		fail("sign", "IsNegative()=%v for unscaled %s", d.IsNegative(), x)
		return
	}
	if new(big.Int).Abs(x).Cmp(pow10[p]) >= 0 {
		h.Outcome("hist-overflowing-value") // more digits than the precision: formatting is not specified
		return
	}
	want := refString(x, sc)
	got := safeString(d)
	if got != want {
		fail("stale-or-wrong-text", "String()=%q, the value %s at scale %d is %q", got, x, sc, want)
		return
	}
	d2, err := asetypes.NewDecimalString(p, sc, got)
	if err != nil || d2.Int().Cmp(x) != 0 || !d.Cmp(*d2) {
		fail("roundtrip", "text %q parses back to %v (err %v)", got, d2, err)
		return
	}
	h.Outcome("hist-ok")
}

func safeString(d *asetypes.Decimal) (s string) {
	defer func() {
		if r := recover(); r != nil {
			s = "<panic>"
		}
	}()
	return d.String()
}

func malClass(t string) string {
	switch {
	case strings.Count(t, ".") > 1:
		return "two-points"
	case strings.TrimSpace(t) == "":
		return "empty"
	default:
		return "other"
	}
}

func values(p int) []*big.Int {
	var vs []*big.Int
	seen := map[string]bool{}
	add := func(x *big.Int) {
		if new(big.Int).Abs(x).Cmp(pow10[p]) >= 0 {
			return
		}
		for _, sg := range []int{1, -1} {
			y := new(big.Int).Set(x)
			if sg < 0 {
				y.Neg(y)
			}
			if !seen[y.String()] {
				seen[y.String()] = true
				vs = append(vs, y)
			}
		}
	}
	add(big.NewInt(0))
	for k := 0; k <= p; k++ {
		add(pow10[k])
		add(new(big.Int).Sub(pow10[k], big.NewInt(1)))
		add(new(big.Int).Add(pow10[k], big.NewInt(1)))
		// a digit ramp of k digits: 123456...
		r := new(big.Int)
		for i := 1; i <= k; i++ {
			r.Mul(r, big.NewInt(10))
			r.Add(r, big.NewInt(int64(i%10)))
		}
		add(r)
		// k digits with inner zeros: 10..01
		if k >= 2 {
			add(new(big.Int).Add(pow10[k-1], big.NewInt(1)))
			add(new(big.Int).Mul(big.NewInt(5), pow10[k-1]))
		}
	}
	for i := int64(0); i < 1000; i++ {
		add(big.NewInt(i))
	}
	return vs
}

// spellings derives input texts from the canonical text of a value.
func spellings(canon string) []string {
	neg := strings.HasPrefix(canon, "-")
	body := strings.TrimPrefix(canon, "-")
	parts := strings.SplitN(body, ".", 2)
	l, r := parts[0], parts[1]
	sign := ""
	if neg {
		sign = "-"
	}
	out := []string{
		canon,
		sign + "000" + l + "." + r,  // leading zeros
		sign + l + "." + r + "0",    // one trailing zero
		sign + l + "." + r + "000",  // trailing zeros
		" " + canon, canon + " ", "  " + canon + "\t", // surrounding space
		sign + l + "." + r + "5",    // one more fractional digit
		sign + l + "." + r + "." + r, // two points
		sign + l + "." + r + ".",    // two points, empty tail
		sign + l + " ." + r,         // inner space
		sign + l + "." + r + "e1",   // exponent
		sign + l + "," + r,          // comma
		sign + l + "." + "-" + r,    // sign in the fraction
		"9" + strings.TrimPrefix(canon, "-"), // extra leading digit
	}
	if r == "0" {
		out = append(out, sign+l, sign+l+".") // no point / bare point
	}
	if l == "0" {
		out = append(out, sign+"."+r) // no integer part
	}
	if !neg {
		out = append(out, "+"+canon)
	}
	return out
}

func main() {
	h = hlib.Init("C16")
	var rc Case
	if h.ReplayCase(&rc) {
		run(rc)
		h.ReplayReport()
	}
	idx := 0
	// constructor grid
	for p := -2; p <= 41; p++ {
		for s := -2; s <= 41; s++ {
			idx++
			if !h.Mine(idx) {
				continue
			}
			c := Case{Kind: "ctor", P: p, S: s}
			run(c)
			h.Section("ctor", 1)
		}
	}
	fixed := []string{"", " ", ".", "-", "+", "-.", "abc", "1a", "0x10", "1_0", "١٢", "--1", "+-1", "1-", "NaN", "Inf", "1e3", "..", "1..2", ".1.", "\x00"}
	for p := 1; p <= 38; p++ {
		for s := 0; s <= p; s++ {
			idx++
			if !h.Mine(idx) {
				continue
			}
			vs := values(p)
			for _, x := range vs {
				c := Case{Kind: "fmt", P: p, S: s, Int: x.String()}
				run(c)
				h.Section("fmt", 1)
				h.Sample(func() interface{} { return c })
			}
			// parse: spellings of boundary values; the full 3-digit block only in thorough
			for i, x := range vs {
				if !h.Thorough && new(big.Int).Abs(x).Cmp(big.NewInt(120)) > 0 && new(big.Int).Abs(x).Cmp(big.NewInt(1000)) < 0 {
					continue
				}
				_ = i
				canon := refString(x, s)
				for _, t := range spellings(canon) {
					c := Case{Kind: "parse", P: p, S: s, Text: t}
					run(c)
					h.Section("parse", 1)
					h.Sample(func() interface{} { return c })
				}
			}
			for _, t := range fixed {
				run(Case{Kind: "parse", P: p, S: s, Text: t})
				h.Section("parse-fixed", 1)
			}
			// numerals wider than the type: p+1 digits, s+1 fractional digits
			wide := strings.Repeat("9", p-s+1) + "." + strings.Repeat("9", s)
			run(Case{Kind: "parse", P: p, S: s, Text: wide})
			run(Case{Kind: "parse", P: p, S: s, Text: "0." + strings.Repeat("0", s) + "1"})
			// exactly 10^p (one digit more than the precision holds) and its neighbours, both signs
			for _, d := range []int64{-1, 0, 1} {
				x := new(big.Int).Add(pow10[p], big.NewInt(d))
				for _, sg := range []string{"", "-"} {
					run(Case{Kind: "parse", P: p, S: s, Text: sg + refString(x, s)})
					h.Section("parse-limit", 1)
				}
			}
		}
	}
	// object histories: every sequence of operations on one object up to the depth, observed
	// at the end (every prefix is a sequence of its own, so every intermediate state is observed)
	type ps struct{ p, s, depth int }
	grids := []ps{{5, 2, 4}, {10, 0, 3}, {38, 19, 3}, {3, 3, 3}}
	if h.Thorough {
		grids = []ps{{5, 2, 5}, {10, 0, 4}, {38, 19, 4}, {3, 3, 4}, {38, 38, 4}, {1, 0, 4}}
	}
	for _, g := range grids {
		var rec func(ops []string)
		rec = func(ops []string) {
			if len(ops) > 0 {
				run(Case{Kind: "hist", P: g.p, S: g.s, Ops: append([]string{}, ops...)})
			}
			if len(ops) == g.depth {
				return
			}
			for _, a := range histAlphabet {
				if len(ops) == 1 { // shard on the first two operations
					idx++
					if !h.Mine(idx) {
						continue
					}
				}
				rec(append(ops, a))
			}
		}
		rec(nil)
	}
	h.R.Extra["pairs"] = 741
	h.Done()
}
