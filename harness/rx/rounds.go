//go:build vrt

package rx

import (
	"context"
	"errors"
	"fmt"
	"io"
	"strings"
	"time"

	"github.com/SAP/go-dblib/tds"
	"github.com/SAP/go-dblib/vrt"
	"verif/harness/hx"
	"verif/hlib"
	"verif/ref/tdspkg"
)

// Round is one request/response exchange on the channel.
type Round struct {
	Resp string `json:"resp"`
	Pack int    `json:"pack"` // 0 one packet, 1 EOM packet = last package, 2 cut inside last package, 3 last packet = last byte, 4 one package per packet, 5 one byte per packet (short responses)
	Beh  string `json:"beh"`  // next | until-true | until-eof | until-err | nil-callback
	J    int    `json:"j"`    // callback acts at the j-th package it sees (0-based)
	// NoWait: NextPackageUntil is called with wait=false (only its first read does not block); the
	// consumer polls again, after everybody has come to rest, while nothing is ready
	NoWait bool `json:"nowait,omitempty"`
}

// RoundObs is what the consumer observed in one round.
type RoundObs struct {
	Seen     []string // packages handed to the consumer (returned, or passed to its callback), in order
	Ret      string   // classification of how the behaviour's call returned
	EEDInErr []string // messages carried by the returned error
	ErrIs    bool     // returned error matches the callback's error
	Leftover string   // result of NextPackage(wait=false) after the round ("none" or what was obtained)
	Post     string   // canonical dump of the channel after the round
	Log      []string // hook log entries of this round
}

// ErrCallback is the error the consumer callback returns in "until-err";
// ErrCallbackEOF (behaviour "until-errw") is a callback failure that wraps
// io.EOF - it is not the bare io.EOF that asks for the next result set.
var ErrCallback = errors.New("consumer callback failed")
var ErrCallbackEOF = fmt.Errorf("consumer callback failed while scanning: %w", io.EOF)

// HookCfg says how many hooks of each kind are registered before round 0 and
// before round 1.
type HookCfg struct {
	EED0, Env0 int
	EED1, Env1 int
	// Shared: the hooks of one registration are passed as a slice with spare capacity that the
	// caller goes on using afterwards (it appends a hook it never registers); otherwise one call per hook
	Shared bool `json:",omitempty"`
}

// CutsFor computes the packet boundaries for a packetisation class.
func CutsFor(r Response, pack int) []int {
	body := r.Bytes()
	n := len(body)
	lastStart := n - len(r.Pkgs[len(r.Pkgs)-1].Encode())
	switch pack {
	case 1:
		if lastStart > 0 {
			return []int{lastStart}
		}
	case 2:
		if n-lastStart > 1 {
			return []int{lastStart + (n-lastStart)/2}
		}
	case 3:
		if n > 1 {
			return []int{n - 1}
		}
	case 4:
		var cuts []int
		off := 0
		for _, p := range r.Pkgs[:len(r.Pkgs)-1] {
			off += len(p.Encode())
			cuts = append(cuts, off)
		}
		return cuts
	case 5:
		if n <= 64 {
			var cuts []int
			for i := 1; i < n; i++ {
				cuts = append(cuts, i)
			}
			return cuts
		}
		return []int{n / 2}
	}
	return nil
}

// Expected delivery of a response (reference decoding + round model).
func Expected(r Response) []string {
	var out []string
	lastFinal := false
	for _, p := range r.Pkgs {
		lastFinal = false
		switch x := p.(type) {
		case tdspkg.EnvChange:
			continue
		case tdspkg.EED:
			if x.Status&0x2 != 0 {
				continue
			}
		case tdspkg.Done:
			lastFinal = x.Status == 0
		}
		out = append(out, RefDesc(p))
	}
	if !lastFinal {
		out = append(out, "DONE status=0x0 tran=0 count=0")
	}
	return out
}

func chanState(ch *tds.Channel) string {
	return hlib.Dump(ch, "*tds.Conn", "sync.RWMutex", "*sync.Mutex", "sync.Mutex", "vsync.RWMutex", "*vsync.Mutex", "vsync.Mutex", "[]tds.EEDHook", "[]tds.EnvChangeHook")
}

// RunRounds executes the rounds on one fresh connection in one controlled
// execution and returns the per-round observations.
func RunRounds(cfg vrt.Config, corpus map[string]Response, rounds []Round, hooks HookCfg) ([]RoundObs, Obs, *vrt.Exec) {
	return RunRoundsCuts(cfg, corpus, rounds, hooks, nil)
}

// RunRoundsCuts is RunRounds with explicit packet boundaries for rounds whose Pack is -1.
func RunRoundsCuts(cfg vrt.Config, corpus map[string]Response, rounds []Round, hooks HookCfg, explicit []int) ([]RoundObs, Obs, *vrt.Exec) {
	var obs []RoundObs
	var o Obs
	x := vrt.Run(cfg, func() {
		obs = nil
		o = Obs{}
		conn, pipe, err := hx.NewConn(context.Background(), 100, 50)
		if err != nil {
			o.Setup = "NewConn: " + err.Error()
			return
		}
		ch, err := conn.NewChannel()
		if err != nil {
			o.Setup = "NewChannel: " + err.Error()
			return
		}
		var log []string
		var keepE []tds.EEDHook
		var keepV []tds.EnvChangeHook
		reg := func(nE, nV int, gen int) {
			if hooks.Shared {
				prevE, prevV := keepE, keepV
				es := make([]tds.EEDHook, 0, nE+4)
				for i := 0; i < nE; i++ {
					id := fmt.Sprintf("eedhook%d.%d", gen, i)
					es = append(es, func(e tds.EEDPackage) { log = append(log, fmt.Sprintf("%s nr=%d", id, e.MsgNumber)) })
				}
				vs := make([]tds.EnvChangeHook, 0, nV+4)
				for i := 0; i < nV; i++ {
					id := fmt.Sprintf("envhook%d.%d", gen, i)
					vs = append(vs, func(t tds.EnvChangeType, o, n string) {
						log = append(log, fmt.Sprintf("%s (%d %q->%q)", id, uint8(t), o, n))
					})
				}
				if nE > 0 {
					ch.RegisterEEDHooks(es...)
					keepE = es
				}
				if nV > 0 {
					ch.RegisterEnvChangeHooks(vs...)
					keepV = vs
				}
				// ... and the caller goes on using the slices of its EARLIER registration
				if prevE != nil {
					_ = append(prevE, func(e tds.EEDPackage) { log = append(log, "NEVER-REGISTERED eed hook called") })
				}
				if prevV != nil {
					_ = append(prevV, func(t tds.EnvChangeType, o, n string) { log = append(log, "NEVER-REGISTERED env hook called") })
				}
				return
			}
			for i := 0; i < nE; i++ {
				id := fmt.Sprintf("eedhook%d.%d", gen, i)
				ch.RegisterEEDHooks(func(e tds.EEDPackage) { log = append(log, fmt.Sprintf("%s nr=%d", id, e.MsgNumber)) })
			}
			for i := 0; i < nV; i++ {
				id := fmt.Sprintf("envhook%d.%d", gen, i)
				ch.RegisterEnvChangeHooks(func(t tds.EnvChangeType, o, n string) {
					log = append(log, fmt.Sprintf("%s (%d %q->%q)", id, uint8(t), o, n))
				})
			}
		}
		// pacing of the consumer-paced server (Pack 7)
		consumerID, peerID := vrt.Cur(), -1
		sent := make([]int, len(rounds))  // packets of round i the server has sent
		allow := make([]int, len(rounds)) // packets of round i the consumer has asked for explicitly
		gate := make([]bool, len(rounds)) // the consumer's call has returned: the server may send the rest
		// peer: answer each request (recognised by its EOM packet) with the next response
		vrt.GoNamed("peer", func() {
			peerID = vrt.Cur()
			for ri, rd := range rounds {
				for {
					w := pipe.PeerRecv()
					if w == nil {
						return
					}
					if len(w) >= 2 && w[1]&hx.EOM != 0 {
						break
					}
				}
				r := corpus[rd.Resp]
				cuts := CutsFor(r, rd.Pack)
				if rd.Pack == -1 {
					cuts = explicit
				}
				if rd.Pack == 7 {
					// consumer-paced server: a packet (cut inside the last package) is sent only once the
					// client is waiting inside the library, or has returned from its call, or asks for it
					for i, p := range Packets(r.Bytes(), CutsFor(r, 2)) {
						if i > 0 {
							ri := ri
							vrt.Block("harness: the server sends on once the client waits for it or has moved on", 0, func() bool {
								return gate[ri] || allow[ri] > sent[ri] || vrt.IsBlocked(consumerID)
							})
						}
						pipe.PeerSend(p)
						sent[ri]++
					}
					continue
				}
				if rd.Pack == 6 {
					// slow server: the packets (cut inside the last package) arrive one by one, each
					// only after everybody else has come to rest
					for _, p := range Packets(r.Bytes(), CutsFor(r, 2)) {
						pipe.PeerSend(p)
						vrt.Settle()
					}
					continue
				}
				pipe.PeerSend(OneChunk(Packets(r.Bytes(), cuts))...)
			}
		})
		for ri, rd := range rounds {
			if ri == 0 {
				reg(hooks.EED0, hooks.Env0, 0)
			}
			if ri == 1 {
				reg(hooks.EED1, hooks.Env1, 1)
			}
			log = nil
			ro := RoundObs{}
			ctx, cancel := vrt.WithTimeout(context.Background(), time.Hour)
			if err := ch.SendPackage(ctx, &tds.LanguagePackage{Cmd: fmt.Sprintf("select %d", ri)}); err != nil {
				o.Setup = fmt.Sprintf("round %d: SendPackage: %v", ri, err)
				cancel()
				return
			}
			see := func(p tds.Package) string {
				d := LibDesc(p)
				log = append(log, "consumer "+d)
				ro.Seen = append(ro.Seen, d)
				return d
			}
			finished := false // consumer has reached the final DONE (or an error)
			drainNext := func() {
				for !finished && len(ro.Seen) < 400 {
					p, err := ch.NextPackage(ctx, true)
					if err != nil {
						ro.Ret += "|then NextPackage error: " + classifyErr(err)
						finished = true
						return
					}
					if IsFinalDone(see(p)) {
						finished = true
					}
				}
			}
			k := 0
			npk := len(Packets(corpus[rd.Resp].Bytes(), CutsFor(corpus[rd.Resp], 2)))
			arrived := func(n int) {
				if n > npk {
					n = npk
				}
				vrt.Block("harness: until the reader has parsed what the server sent", 0, func() bool {
					return (rd.Pack != 7 || sent[ri] >= n) && pipe.Unread() == 0 && vrt.Quiet(consumerID, peerID)
				})
			}
			until := func(cb func(tds.Package) (bool, error)) (tds.Package, error) {
				if rd.NoWait {
					arrived(1) // what has been sent so far is parsed; a paced server's later packets are not there yet
				}
				for tries := 0; ; tries++ {
					p, err := ch.NextPackageUntil(ctx, !rd.NoWait, cb)
					if !rd.NoWait || !errors.Is(err, tds.ErrNoPackageReady) || k > 0 || tries > 100 {
						return p, err
					}
					// nothing deliverable in what arrived so far: ask for the next packet and poll again
					if rd.Pack == 7 {
						allow[ri] = sent[ri] + 1
						arrived(allow[ri])
					} else {
						vrt.Sleep(time.Millisecond)
					}
				}
			}
			switch rd.Beh {
			case "next":
				drainNext()
				ro.Ret = "drained" + ro.Ret
			case "nil-callback":
				p, err := until(nil)
				ro.Ret = retClass(p, err, &ro)
				finished = true
			default:
				p, err := until(func(p tds.Package) (bool, error) {
					d := see(p)
					act := k == rd.J
					k++
					if !act {
						if IsFinalDone(d) {
							finished = true
							return true, nil
						}
						return false, nil
					}
					if IsFinalDone(d) {
						finished = true
					}
					switch rd.Beh {
					case "until-true":
						return true, nil
					case "until-eof":
						return false, io.EOF
					case "until-errw":
						return false, ErrCallbackEOF
					}
					return false, ErrCallback
				})
				ro.Ret = retClass(p, err, &ro)
				if (rd.Beh == "until-err" || rd.Beh == "until-errw") && err != nil && !strings.HasPrefix(ro.Ret, "ctx") {
					finished = true // the library has consumed the rest
				}
				if err != nil && rd.Beh != "until-err" && rd.Beh != "until-errw" && err != io.EOF {
					finished = true
				}
				drainNext()
			}
			// nothing may be left over: let the reader finish, then poll without waiting
			gate[ri] = true
			if rd.NoWait || rd.Pack == 7 {
				vrt.Sleep(time.Millisecond) // virtual: fires once everybody - a slow server included - has come to rest
			}
			vrt.Settle()
			p, err := ch.NextPackage(ctx, false)
			switch {
			case err == nil:
				ro.Leftover = "package " + LibDesc(p)
			case errors.Is(err, tds.ErrNoPackageReady):
				ro.Leftover = "none"
			default:
				ro.Leftover = "error " + classifyErr(err)
			}
			cancel()
			ro.Post = chanState(ch)
			ro.Log = log
			obs = append(obs, ro)
		}
		o.PacketSize = conn.PacketSize()
	})
	if x.Failure != nil {
		o.Failure = x.Failure.String()
	}
	return obs, o, x
}

func retClass(p tds.Package, err error, ro *RoundObs) string {
	var ee *tds.EEDError
	if errors.As(err, &ee) {
		for _, e := range ee.EEDPackages {
			ro.EEDInErr = append(ro.EEDInErr, fmt.Sprintf("nr=%d", e.MsgNumber))
		}
	}
	ro.ErrIs = err != nil && (errors.Is(err, ErrCallback) || errors.Is(err, ErrCallbackEOF))
	switch {
	case err == nil && p != nil:
		return "returned package"
	case err == nil:
		return "returned nil,nil"
	case err == io.EOF:
		return "io.EOF"
	case errors.Is(err, context.DeadlineExceeded):
		return "ctx deadline exceeded: " + err.Error()
	case errors.Is(err, ErrCallback), errors.Is(err, ErrCallbackEOF):
		return "callback error"
	case errors.Is(err, io.EOF):
		return "wrapped io.EOF"
	}
	return "error: " + err.Error()
}
