package rx

import (
	"math/big"
	"time"

	"verif/ref/tdspkg"
	"verif/ref/tdsval"
)

// Response is a named server response: a list of reference packages.
type Response struct {
	Name string
	Pkgs []tdspkg.Pkg
}

func (r Response) Bytes() []byte { return tdspkg.Stream(r.Pkgs...) }

var final = tdspkg.Done{Token: tdspkg.TokDone}

func done(status uint16, count int32) tdspkg.Done {
	return tdspkg.Done{Token: tdspkg.TokDone, Status: status, Count: count}
}

func eed(nr uint32, status uint8, msg string) tdspkg.EED {
	return tdspkg.EED{MsgNumber: nr, State: 1, Class: 16, SQLState: []byte("ZZZZZ"), Status: status, TranState: 0, Msg: msg, Server: "srv", Proc: "", Line: 7}
}

const nullable = 0x20
const colstatus = 0x8

// AllTypes returns one format and one non-NULL value per data type.
func AllTypes(wideNames bool) ([]tdspkg.Fmt, []interface{}, []int) {
	t := func(y int, m time.Month, d, hh, mm, ss, ns int) time.Time { return time.Date(y, m, d, hh, mm, ss, ns, time.UTC) }
	type e struct {
		f tdspkg.Fmt
		v interface{}
		l int
	}
	es := []e{
		{tdspkg.Fmt{DT: tdsval.INT1}, uint8(200), 0},
		{tdspkg.Fmt{DT: tdsval.INT2}, int16(-12345), 0},
		{tdspkg.Fmt{DT: tdsval.INT4}, int32(-123456789), 0},
		{tdspkg.Fmt{DT: tdsval.INT8}, int64(-1234567890123456789), 0},
		{tdspkg.Fmt{DT: tdsval.UINT2}, uint16(54321), 0},
		{tdspkg.Fmt{DT: tdsval.UINT4}, uint32(4000000000), 0},
		{tdspkg.Fmt{DT: tdsval.UINT8}, uint64(18000000000000000000), 0},
		{tdspkg.Fmt{DT: tdsval.INTN, MaxLen: 8}, int32(77), 4},
		{tdspkg.Fmt{DT: tdsval.UINTN, MaxLen: 8}, uint16(9), 2},
		{tdspkg.Fmt{DT: tdsval.FLT4}, float32(1.5), 0},
		{tdspkg.Fmt{DT: tdsval.FLT8}, float64(-2.25e100), 0},
		{tdspkg.Fmt{DT: tdsval.FLTN, MaxLen: 8}, float64(3.5), 8},
		{tdspkg.Fmt{DT: tdsval.BIT}, true, 0},
		{tdspkg.Fmt{DT: tdsval.MONEY}, big.NewInt(-123456789012), 8},
		{tdspkg.Fmt{DT: tdsval.SHORTMONEY}, big.NewInt(214748), 4},
		{tdspkg.Fmt{DT: tdsval.MONEYN, MaxLen: 8}, big.NewInt(99990000), 8},
		{tdspkg.Fmt{DT: tdsval.DECN, MaxLen: 17, Precision: 38, Scale: 4}, new(big.Int).Neg(big.NewInt(1234567890123)), 0},
		{tdspkg.Fmt{DT: tdsval.NUMN, MaxLen: 9, Precision: 18, Scale: 0}, big.NewInt(42), 0},
		{tdspkg.Fmt{DT: tdsval.DATE}, t(2024, 2, 29, 0, 0, 0, 0), 4},
		{tdspkg.Fmt{DT: tdsval.DATEN, MaxLen: 4}, t(1753, 1, 1, 0, 0, 0, 0), 4},
		{tdspkg.Fmt{DT: tdsval.TIME}, t(1, 1, 1, 13, 14, 15, 120000000), 4},
		{tdspkg.Fmt{DT: tdsval.TIMEN, MaxLen: 4}, t(1, 1, 1, 23, 59, 59, 990000000), 4},
		{tdspkg.Fmt{DT: tdsval.DATETIME}, t(1999, 12, 31, 23, 59, 59, 990000000), 8},
		{tdspkg.Fmt{DT: tdsval.SHORTDATE}, t(2079, 6, 6, 23, 59, 0, 0), 4},
		{tdspkg.Fmt{DT: tdsval.DATETIMEN, MaxLen: 8}, t(1899, 12, 31, 1, 0, 0, 0), 8},
		{tdspkg.Fmt{DT: tdsval.BIGDATETIMEN, MaxLen: 8, Scale: 6}, t(9999, 12, 31, 23, 59, 59, 999999000), 8},
		{tdspkg.Fmt{DT: tdsval.BIGTIMEN, MaxLen: 8, Scale: 6}, t(1, 1, 1, 0, 0, 0, 1000), 8},
		{tdspkg.Fmt{DT: tdsval.CHAR, MaxLen: 10}, "char value", 0},
		{tdspkg.Fmt{DT: tdsval.VARCHAR, MaxLen: 255}, "vé日😀", 0},
		{tdspkg.Fmt{DT: tdsval.LONGCHAR, MaxLen: 32768}, "long char", 0},
		{tdspkg.Fmt{DT: tdsval.BINARY, MaxLen: 4}, []byte{0, 1, 2, 255}, 0},
		{tdspkg.Fmt{DT: tdsval.VARBINARY, MaxLen: 255}, []byte{0xde, 0xad}, 0},
		{tdspkg.Fmt{DT: tdsval.LONGBINARY, MaxLen: 32768}, []byte{9, 8, 7}, 0},
		{tdspkg.Fmt{DT: tdsval.TEXT, MaxLen: 2147483647, Object: "db.dbo.t"}, "text column", 0},
		{tdspkg.Fmt{DT: tdsval.IMAGE, MaxLen: 2147483647, Object: "db.dbo.t"}, []byte{1, 2, 3, 4, 5}, 0},
		{tdspkg.Fmt{DT: tdsval.UNITEXT, MaxLen: 2147483647, Object: "t"}, "uni日😀", 0},
		{tdspkg.Fmt{DT: tdsval.XML, MaxLen: 2147483647, Object: ""}, "<a/>", 0},
	}
	var fs []tdspkg.Fmt
	var vs []interface{}
	var ls []int
	for i, x := range es {
		x.f.Name = "c" + string(rune('a'+i%26))
		x.f.UserType = int32(i)
		if wideNames {
			x.f.Label, x.f.Catalogue, x.f.Schema, x.f.Table = "L", "cat", "dbo", "tab"
		}
		fs = append(fs, x.f)
		vs = append(vs, x.v)
		ls = append(ls, x.l)
	}
	return fs, vs, ls
}

// NullableTypes returns formats (with column status) and all-NULL values.
func NullableTypes() ([]tdspkg.Fmt, []interface{}) {
	dts := []byte{tdsval.INTN, tdsval.UINTN, tdsval.FLTN, tdsval.MONEYN, tdsval.DECN, tdsval.NUMN, tdsval.DATEN, tdsval.TIMEN, tdsval.DATETIMEN, tdsval.BIGDATETIMEN, tdsval.BIGTIMEN,
		tdsval.VARCHAR, tdsval.CHAR, tdsval.LONGCHAR, tdsval.VARBINARY, tdsval.BINARY, tdsval.LONGBINARY}
	var fs []tdspkg.Fmt
	var vs []interface{}
	for i, dt := range dts {
		f := tdspkg.Fmt{Name: "n" + string(rune('a'+i)), DT: dt, MaxLen: 8, Status: nullable}
		if dt == tdsval.DECN || dt == tdsval.NUMN {
			f.Precision, f.Scale, f.MaxLen = 10, 2, 6
		}
		if dt == tdsval.BIGDATETIMEN || dt == tdsval.BIGTIMEN {
			f.Scale = 6
		}
		if i%2 == 0 {
			f.Status |= colstatus
		}
		fs = append(fs, f)
		vs = append(vs, nil)
	}
	return fs, vs
}

// Corpus returns the response corpus. Small responses come first.
func Corpus() []Response {
	var out []Response
	add := func(name string, p ...tdspkg.Pkg) { out = append(out, Response{name, p}) }
	intf := tdspkg.Fmt{Name: "id", DT: tdsval.INT4, UserType: 7}
	vcf := tdspkg.Fmt{Name: "name", DT: tdsval.VARCHAR, MaxLen: 30, Status: nullable}
	wide := func(f tdspkg.Fmt) tdspkg.Fmt { f.Label, f.Catalogue, f.Schema, f.Table = "lbl", "db", "dbo", "t"; return f }
	rf2 := tdspkg.RowFmt{Wide: true, Fmts: []tdspkg.Fmt{wide(intf), wide(vcf)}}
	row := func(id int32, name interface{}) tdspkg.Data {
		return tdspkg.Data{Row: true, Fmts: rf2.Fmts, Values: []interface{}{id, name}}
	}
	add("done-final", final)
	add("done-count", done(0x10, 3))
	add("returnstatus-doneproc", tdspkg.ReturnStatus{Value: -6}, tdspkg.Done{Token: tdspkg.TokDoneProc, Status: 0x8})
	add("msg-done", tdspkg.Msg{Status: 1, ID: 35}, final)
	add("envchange-done", tdspkg.EnvChange{Members: []tdspkg.EnvMember{{Type: 1, New: "db2", Old: "db1"}}}, final)
	add("orderless-row", tdspkg.RowFmt{Wide: true, Fmts: []tdspkg.Fmt{{Name: "x", DT: tdsval.INT1}}}, tdspkg.Data{Row: true, Fmts: []tdspkg.Fmt{{DT: tdsval.INT1}}, Values: []interface{}{uint8(5)}}, final)
	add("rows", rf2, row(1, "alpha"), row(2, nil), row(3, "γ"), done(0x10, 3))
	add("two-result-sets", rf2, row(1, "a"), done(0x11, 1), rf2, row(2, "b"), row(3, "c"), done(0x10, 2))
	add("orderby2-rows", rf2, tdspkg.OrderBy{Wide: true, Cols: []int{2, 1}}, row(9, "z"), final)
	add("eed-error-then-done", eed(2601, 0, "Attempt to insert duplicate key row\n"), done(0x2, 0))
	add("eed-info-only", eed(5701, 2, "Changed database context to 'master'.\n"), final)
	add("eed-mixed", eed(1, 2, "info first"), rf2, row(1, "a"), eed(2, 0, "error in the middle"), row(2, "b"), eed(3, 1, "more follow"), done(0x12, 2))
	add("envchange-packsize", tdspkg.EnvChange{Members: []tdspkg.EnvMember{{Type: 4, New: "2048", Old: "512"}, {Type: 2, New: "us_english", Old: ""}, {Type: 3, New: "utf8", Old: "iso_1"}}}, final)
	add("loginack-done", tdspkg.LoginAck{Status: 5, Version: [4]byte{5, 0, 0, 0}, Program: "ASE", ProgVersion: [4]byte{16, 0, 3, 0}}, final)
	kf := []tdspkg.Fmt{{Name: "", DT: tdsval.INT4}, {Name: "", DT: tdsval.LONGBINARY, MaxLen: 2147483647}, {Name: "", DT: tdsval.LONGBINARY, MaxLen: 2147483647}}
	add("login-negotiation", tdspkg.LoginAck{Status: 7, Version: [4]byte{5, 0, 0, 0}, Program: "ASE", ProgVersion: [4]byte{16, 0, 3, 0}}, tdspkg.Msg{Status: 1, ID: 35},
		tdspkg.ParamFmt{Fmts: kf}, tdspkg.Data{Fmts: kf, Values: []interface{}{int32(1), []byte("-----BEGIN RSA PUBLIC KEY-----\nAAAA\n-----END RSA PUBLIC KEY-----\n"), []byte("0123456789abcdef0123456789abcdef")}}, final)
	pf := []tdspkg.Fmt{{Name: "@p1", DT: tdsval.INTN, MaxLen: 4, Status: 1}, {Name: "@p2", DT: tdsval.VARCHAR, MaxLen: 255, Status: 1 | colstatus, Locale: "us"}}
	add("proc-output-params", tdspkg.ReturnStatus{Value: 0}, tdspkg.ParamFmt{Wide: true, Fmts: pf}, tdspkg.Data{Fmts: pf, Values: []interface{}{int32(12), "out"}, Lens: []int{4, 0}}, tdspkg.Done{Token: tdspkg.TokDoneProc, Status: 0})
	add("capability-done", tdspkg.Capability{Types: []byte{1, 2}, Masks: [][]byte{{0x01, 0xff, 0x00, 0x80, 0x02}, {0x00, 0x06}}}, final)
	fs, vs, ls := AllTypes(true)
	add("all-types-row", tdspkg.RowFmt{Wide: true, Fmts: fs}, tdspkg.Data{Row: true, Fmts: fs, Values: vs, Lens: ls}, done(0x10, 1))
	nf, nv := NullableTypes()
	add("all-null-row", tdspkg.RowFmt{Wide: true, Fmts: nf}, tdspkg.Data{Row: true, Fmts: nf, Values: nv}, tdspkg.Data{Row: true, Fmts: nf, Values: nv}, done(0x10, 2))
	pfs, pvs, pls := AllTypes(false)
	// parameter formats cannot carry text/image columns
	var pf2 []tdspkg.Fmt
	var pv2 []interface{}
	var pl2 []int
	for i, f := range pfs {
		if f.Object != "" || f.DT == tdsval.XML {
			continue
		}
		pf2 = append(pf2, f)
		pv2 = append(pv2, pvs[i])
		pl2 = append(pl2, pls[i])
	}
	add("all-types-params", tdspkg.ParamFmt{Wide: true, Fmts: pf2}, tdspkg.Data{Fmts: pf2, Values: pv2, Lens: pl2}, final)
	add("no-done-at-all", tdspkg.ReturnStatus{Value: 1})
	add("done-more-last", rf2, row(1, "a"), done(0x1, 1))
	return out
}
