//go:build vrt

package rx

import (
	"context"
	"errors"
	"fmt"
	"io"
	"time"

	"github.com/SAP/go-dblib/tds"
	"github.com/SAP/go-dblib/vrt"
	"verif/harness/hx"
	"verif/hlib"
)

// Item is one thing the consumer obtained.
type Item struct {
	Desc string // LibDesc of the package, or "error: ..."
	Dump string // canonical reflect dump (field values, incl. unexported)
	Err  bool
}

// Obs is what one execution produced.
type Obs struct {
	Items      []Item
	ConnErrs   int
	PacketSize int
	Failure    string
	Setup      string
	VirtualEnd time.Duration
	Log        []string // hook / event log
}

// Key is the comparable summary of the delivered package sequence.
func (o Obs) Key() string {
	s := ""
	for _, it := range o.Items {
		s += it.Desc + " ## " + it.Dump + "\n"
	}
	return s
}

// Descs lists the delivered descriptions.
func (o Obs) Descs() []string {
	var d []string
	for _, it := range o.Items {
		d = append(d, it.Desc)
	}
	return d
}

// IsFinalDone reports whether a description is a DONE with final status.
func IsFinalDone(desc string) bool {
	return len(desc) >= 16 && desc[:16] == "DONE status=0x0 "
}

// Script describes how the peer delivers data.
type Script struct {
	Chunks    [][]byte // what each transport read returns at most (in order)
	Close     bool     // peer closes after the chunks (EOF)
	Fail      error    // or the transport fails with this error after the chunks
	QueueSize int
	Timeout   int // packet read timeout in seconds (0: the harness default of 50)
	// ZeroTimeout: Info.PacketReadTimeout = 0, the value of an Info that was never given one
	ZeroTimeout bool
}

// DumpPkg renders a library package canonically (reflect walker).
func DumpPkg(p tds.Package) string {
	return hlib.Dump(p, "sync.Mutex", "sync.RWMutex", "vsync.Mutex", "vsync.RWMutex")
}

// Drain is the standard consumer: NextPackage(wait) until a final DONE, an
// error, or max items. The context expires after a virtual hour, so a
// response whose end never becomes visible shows up as a context error.
func Drain(ch *tds.Channel, max int) []Item {
	ctx, cancel := vrt.WithTimeout(context.Background(), time.Hour)
	defer cancel()
	var items []Item
	for len(items) < max {
		pkg, err := ch.NextPackage(ctx, true)
		if err != nil {
			items = append(items, Item{Desc: "error: " + classifyErr(err), Err: true})
			return items
		}
		d := LibDesc(pkg)
		items = append(items, Item{Desc: d, Dump: DumpPkg(pkg)})
		if IsFinalDone(d) {
			return items
		}
	}
	return items
}

func classifyErr(err error) string {
	switch {
	case errors.Is(err, context.DeadlineExceeded):
		return "context deadline exceeded (" + err.Error() + ")"
	case errors.Is(err, tds.ErrChannelClosed):
		return "channel closed"
	case errors.Is(err, io.EOF):
		return "EOF (" + err.Error() + ")"
	}
	return err.Error()
}

// Deliver runs one controlled execution: a fresh Conn, channel 0, the peer
// feeding the script, and consume() as the consumer.
func Deliver(cfg vrt.Config, sc Script, consume func(conn *tds.Conn, ch *tds.Channel, pipe *vrt.Pipe, o *Obs)) (Obs, *vrt.Exec) {
	var o Obs
	x := vrt.Run(cfg, func() {
		o = Obs{}
		qs := sc.QueueSize
		if qs == 0 {
			qs = 100
		}
		to := sc.Timeout
		if to == 0 {
			to = 50
		}
		if sc.ZeroTimeout {
			to = 0
		}
		conn, pipe, err := hx.NewConn(context.Background(), qs, to)
		if err != nil {
			o.Setup = "NewConn: " + err.Error()
			return
		}
		ch, err := conn.NewChannel()
		if err != nil {
			o.Setup = "NewChannel: " + err.Error()
			return
		}
		vrt.GoNamed("peer", func() {
			pipe.PeerSend(sc.Chunks...)
			if sc.Fail != nil {
				pipe.PeerFail(sc.Fail)
			} else if sc.Close {
				pipe.PeerCloseWrite()
			}
		})
		consume(conn, ch, pipe, &o)
		o.PacketSize = conn.PacketSize()
		o.VirtualEnd = vrt.Now()
	})
	if x.Failure != nil {
		o.Failure = x.Failure.String()
	}
	if x.Diverged != "" {
		o.Failure = "DIVERGED: " + x.Diverged
	}
	return o, x
}

// Packets builds the packets of a response body cut at the given offsets.
func Packets(body []byte, cuts []int) [][]byte {
	return hx.Packetise(4, 0, body, cuts)
}

// OneChunk joins packets into a single transport chunk.
func OneChunk(pk [][]byte) [][]byte { return [][]byte{hx.Concat(pk...)} }

// SplitStream cuts the concatenated stream at the given offsets.
func SplitStream(pk [][]byte, at []int) [][]byte {
	s := hx.Concat(pk...)
	var out [][]byte
	prev := 0
	for _, a := range at {
		if a > prev && a < len(s) {
			out = append(out, s[prev:a])
			prev = a
		}
	}
	out = append(out, s[prev:])
	return out
}

var _ = fmt.Sprint
