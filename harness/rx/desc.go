// Package rx holds what the receive-path harnesses (C02, C03, C11, C14)
// share: the response corpus (reference-encoded), canonical descriptions of
// library packages, and the scripted delivery of a response to a real
// tds.Conn under the controlled scheduler.
package rx

import (
	"fmt"
	"reflect"
	"strings"

	"verif/hlib"

	"github.com/SAP/go-dblib/asetypes"
	"github.com/SAP/go-dblib/tds"
	"verif/ref/tdspkg"
	"verif/ref/tdsval"
)

func fmtDesc(f tds.FieldFmt, wide bool) tdspkg.Fmt {
	r := tdspkg.Fmt{Name: f.Name(), Status: uint32(f.Status()), UserType: f.UserType(), DT: byte(f.DataType()), MaxLen: int(f.MaxLength()), Locale: f.LocaleInfo()}
	if tdsval.FixedSize(r.DT) != -1 {
		r.MaxLen = 0
	}
	if p, ok := f.(interface{ Precision() uint8 }); ok {
		r.Precision = p.Precision()
	}
	if s, ok := f.(interface{ Scale() uint8 }); ok {
		r.Scale = s.Scale()
	}
	if wide {
		r.Label, r.Catalogue, r.Schema, r.Table = f.ColumnLabel(), f.Catalogue(), f.Schema(), f.Table()
	}
	return r
}

// RefFmt returns the reference description of a library format (what its accessors report).
func RefFmt(f tds.FieldFmt, wide bool) tdspkg.Fmt { return fmtDesc(f, wide) }

func valueDesc(dt asetypes.DataType, v interface{}) string {
	switch x := v.(type) {
	case *asetypes.Decimal:
		if x == nil || x.String() == "<nil>" {
			return "NULL"
		}
		return x.Int().String()
	}
	return tdspkg.ValueDesc(byte(dt), v)
}

// LibDesc renders a package decoded by the library in the format of
// tdspkg.Pkg.Desc. Unknown kinds fall back to the package's own String.
func LibDesc(p tds.Package) string {
	switch x := p.(type) {
	case *tds.DonePackage:
		return fmt.Sprintf("DONE status=%#x tran=%d count=%d", uint16(x.Status), uint16(x.TranState), x.Count)
	case *tds.EEDPackage:
		return fmt.Sprintf("EED nr=%d state=%d class=%d sqlstate=%x status=%#x tran=%d msg=%q server=%q proc=%q line=%d",
			x.MsgNumber, x.State, x.Class, x.SQLState, uint8(x.Status), x.TranState, strings.TrimSuffix(x.Msg, "\n"), x.ServerName, x.ProcName, x.LineNr)
	case *tds.ErrorPackage:
		return fmt.Sprintf("ERROR nr=%d state=%d class=%d msg=%q server=%q proc=%q line=%d", x.ErrorNumber, x.State, x.Class, x.ErrorMsg, x.ServerName, x.ProcName, x.LineNr)
	case *tds.LoginAckPackage:
		v, pv := [4]byte{}, [4]byte{}
		if x.Version != nil {
			copy(v[:], x.Version.Bytes())
		}
		if x.ProgramVersion != nil {
			copy(pv[:], x.ProgramVersion.Bytes())
		}
		return fmt.Sprintf("LOGINACK status=%d version=%v program=%q progversion=%v", uint8(x.Status), v, x.ProgramName, pv)
	case *tds.MsgPackage:
		return fmt.Sprintf("MSG status=%d id=%d", uint8(x.Status), uint16(x.MsgId))
	case *tds.ReturnStatusPackage:
		return fmt.Sprintf("RETURNSTATUS %d", x.ReturnValue)
	case *tds.OrderByPackage:
		return fmt.Sprintf("ORDERBY %v", x.ColumnOrder)
	case *tds.OrderBy2Package:
		return fmt.Sprintf("ORDERBY %v", x.ColumnOrder)
	case *tds.CapabilityPackage:
		s := "CAPABILITY"
		for _, t := range []tds.CapabilityType{tds.CapabilityRequest, tds.CapabilityResponse, tds.CapabilitySecurity} {
			var bits []int
			any := false
			for n := 0; n < 2048; n++ {
				if x.HasCapability(t, n) {
					bits = append(bits, n)
					any = true
				}
			}
			if any {
				s += fmt.Sprintf(" type%d=%v", t, bits)
			}
		}
		return s
	case *tds.ParamFmtPackage:
		wide := strings.Contains(x.String(), "(wide")
		s := fmt.Sprintf("PARAMFMT wide=%v", wide)
		for _, f := range x.Fmts {
			d := fmtDesc(f, false)
			s += " " + descFmt(d)
		}
		return s
	case *tds.RowFmtPackage:
		wide := strings.Contains(x.String(), "(wide")
		s := fmt.Sprintf("ROWFMT wide=%v", wide)
		for _, f := range x.Fmts {
			s += " " + descFmt(fmtDesc(f, wide))
		}
		return s
	case *tds.RowPackage:
		s := "ROW"
		for _, d := range x.DataFields {
			s += " " + valueDesc(d.Format().DataType(), d.Value())
		}
		return s
	case *tds.ParamsPackage:
		s := "PARAMS"
		for _, d := range x.DataFields {
			s += " " + valueDesc(d.Format().DataType(), d.Value())
		}
		return s
	case *tds.EnvChangePackage:
		out := "ENVCHANGE"
		for _, f := range hlib.FindFields(x, reflect.TypeOf([]tds.EnvChangePackageField{})) {
			for _, m := range f.Interface().([]tds.EnvChangePackageField) {
				out += fmt.Sprintf(" (%d %q->%q)", uint8(m.Type), m.OldValue, m.NewValue)
			}
		}
		return out
	case *tds.HeaderOnlyPackage:
		return "HEADERONLY " + x.String()
	}
	return fmt.Sprintf("%T %s", p, p)
}

func descFmt(f tdspkg.Fmt) string {
	// same text as tdspkg.Fmt.desc (unexported there): rebuild through a one-column format
	d := tdspkg.ParamFmt{Fmts: []tdspkg.Fmt{f}}.Desc()
	if f.Label != "" || f.Catalogue != "" || f.Schema != "" || f.Table != "" {
		d = tdspkg.RowFmt{Wide: true, Fmts: []tdspkg.Fmt{f}}.Desc()
	}
	return d[strings.Index(d, "{"):]
}

// RefDesc is tdspkg's description with the capability entries without bits removed
// (the library cannot distinguish an absent mask from an all-zero one).
func RefDesc(p tdspkg.Pkg) string {
	if c, ok := p.(tdspkg.Capability); ok {
		s := "CAPABILITY"
		for i, t := range c.Types {
			if len(c.Bits(i)) > 0 {
				s += fmt.Sprintf(" type%d=%v", t, c.Bits(i))
			}
		}
		return s
	}
	if d, ok := p.(tdspkg.Data); ok {
		s := d.Kind()
		for i, v := range d.Values {
			if (d.Fmts[i].DT == tdsval.DECN || d.Fmts[i].DT == tdsval.NUMN || d.Fmts[i].DT == tdsval.MONEY || d.Fmts[i].DT == tdsval.MONEYN || d.Fmts[i].DT == tdsval.SHORTMONEY) && v == nil {
				s += " NULL"
				continue
			}
			s += " " + tdspkg.ValueDesc(d.Fmts[i].DT, v)
		}
		return s
	}
	return p.Desc()
}
