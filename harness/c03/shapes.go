//go:build vrt

package main

import (
	"verif/harness/rx"
	"verif/ref/tdspkg"
)

func extraShapes() []rx.Response {
	eed := func(nr uint32, status uint8, msg string) tdspkg.EED {
		return tdspkg.EED{MsgNumber: nr, State: 1, Class: 10, SQLState: []byte("ZZZZZ"), Status: status, Msg: msg, Server: "srv", Line: 1}
	}
	return []rx.Response{
		{Name: "envchange-only", Pkgs: []tdspkg.Pkg{tdspkg.EnvChange{Members: []tdspkg.EnvMember{{Type: 1, New: "master", Old: "tempdb"}}}}},
		{Name: "eed-info-alone", Pkgs: []tdspkg.Pkg{eed(5701, 2, "Changed database context")}},
		{Name: "eed-last", Pkgs: []tdspkg.Pkg{tdspkg.ReturnStatus{Value: 3}, tdspkg.Done{Token: tdspkg.TokDone, Status: 0x10, Count: 1}, eed(77, 0, "message after the last done")}},
	}
}
