//go:build vrt

// C03 — each response is delimited by exactly one final DONE and fully drained.
// Explicit-state exploration over request/response rounds on one channel
// (history depth 2, thorough 3): every round = response shape x
// packetisation class x consumer behaviour, executed on the real Channel
// under the controlled scheduler; the observation of a round after any
// history must equal the reference round model.
package main

import (
	"crypto/sha1"
	"fmt"
	"os"
	"strings"

	"github.com/SAP/go-dblib/vrt"
	"verif/harness/rx"
	"verif/hlib"
)

type Case struct {
	Rounds  []rx.Round `json:"rounds"`
	Choices []int      `json:"choices,omitempty"` // schedule (empty: default schedule)
}

var h *hlib.H
var corpus = map[string]rx.Response{}
var postStates = map[[20]byte]bool{}

func nonEED(exp []string) []string {
	var o []string
	for _, e := range exp {
		if !strings.HasPrefix(e, "EED ") {
			o = append(o, e)
		}
	}
	return o
}

// expectedSeen is what the consumer must see in a round.
func expectedSeen(rd rx.Round) (seen []string, exact bool) {
	exp := rx.Expected(corpus[rd.Resp])
	switch rd.Beh {
	case "next":
		return exp, true
	case "nil-callback":
		return nil, true
	case "until-true", "until-eof":
		// NextPackageUntil keeps EED packages to itself (they go to hooks and into errors);
		// after the callback acted the consumer continues with NextPackage, which delivers them.
		ne := nonEED(exp)
		if rd.J >= len(ne) {
			return ne, true
		}
		// before and including the acting package: no EEDs; afterwards: everything
		acted := ne[rd.J]
		var out []string
		k := 0
		i := 0
		for ; i < len(exp); i++ {
			if strings.HasPrefix(exp[i], "EED ") {
				continue
			}
			out = append(out, exp[i])
			if k == rd.J && exp[i] == acted {
				i++
				break
			}
			k++
		}
		out = append(out, exp[i:]...)
		return out, true
	case "until-err", "until-errw":
		ne := nonEED(exp)
		if rd.J >= len(ne) {
			return ne, true
		}
		return ne[:rd.J+1], true
	}
	return nil, false
}

func shape(name string) string { return name }

func judge(c Case, obs []rx.RoundObs, o rx.Obs) (string, string) {
	hist := "first-round"
	for ri, rd := range c.Rounds {
		if ri > 0 {
			prev := rx.Expected(corpus[c.Rounds[ri-1].Resp])
			real := corpus[c.Rounds[ri-1].Resp].Pkgs
			hist = "after-response-without-real-final-done"
			if d, ok := real[len(real)-1].(interface{ Desc() string }); ok && rx.IsFinalDone(d.Desc()) {
				hist = "after-response-ending-in-real-final-done"
			}
			_ = prev
		}
		if ri >= len(obs) {
			return "C03|round-not-completed|" + rd.Resp + "|" + hist, fmt.Sprintf("%+v: round %d did not complete: %s %s", c.Rounds, ri, o.Failure, o.Setup)
		}
		ro := obs[ri]
		want, _ := expectedSeen(rd)
		ctxt := fmt.Sprintf("round %d of %+v", ri, c.Rounds)
		if strings.Contains(ro.Ret, "ctx deadline") || strings.Contains(ro.Ret, "context deadline") {
			return "C03|no-final-done|" + rd.Resp + "|" + hist, fmt.Sprintf("%s: the consumer never obtained a final DONE (its context expired); saw %v; call returned %q", ctxt, ro.Seen, ro.Ret)
		}
		if strings.Join(ro.Seen, "\n") != strings.Join(want, "\n") {
			k := 0
			for k < len(want) && k < len(ro.Seen) && want[k] == ro.Seen[k] {
				k++
			}
			kind := "wrong-package"
			switch {
			case len(ro.Seen) > len(want) && k == len(want):
				kind = "extra-package"
			case len(ro.Seen) < len(want) && k == len(ro.Seen):
				kind = "missing-package"
			}
			return "C03|" + kind + "|" + rd.Beh + "|" + hist, fmt.Sprintf("%s: consumer saw %d packages, expected %d; first difference at %d: got %s want %s\nall seen: %v\nreturn: %s", ctxt, len(ro.Seen), len(want), k, at(ro.Seen, k), at(want, k), ro.Seen, ro.Ret)
		}
		switch rd.Beh {
		case "nil-callback":
			// the statement fixes what is consumed, not the value a nil callback returns
			if ro.Ret != "io.EOF" && ro.Ret != "wrapped io.EOF" && ro.Ret != "returned nil,nil" {
				return "C03|nil-callback-return|" + hist, fmt.Sprintf("%s: nil callback must consume the response and report io.EOF, returned %q", ctxt, ro.Ret)
			}
		case "until-err", "until-errw":
			ne := nonEED(rx.Expected(corpus[rd.Resp]))
			if rd.J < len(ne) && ro.Ret != "callback error" {
				return "C03|callback-error-lost|" + hist, fmt.Sprintf("%s: callback failed at package %d, the call returned %q", ctxt, rd.J, ro.Ret)
			}
		}
		if ro.Leftover != "none" {
			return "C03|leftover|" + rd.Beh + "|" + rd.Resp, fmt.Sprintf("%s: after the round a package is still queued (carried over to the next response): %s", ctxt, ro.Leftover)
		}
	}
	return "", ""
}

func check(c Case, obs []rx.RoundObs, o rx.Obs) bool {
	if sig, det := judge(c, obs, o); sig != "" {
		h.Violate(sig, det, c)
		return false
	}
	return true
}

func at(s []string, i int) string {
	if i < len(s) {
		x := s[i]
		if len(x) > 200 {
			x = x[:200] + "…"
		}
		return x
	}
	return "<nothing>"
}

func run(c Case) []rx.RoundObs {
	obs, o, x := rx.RunRounds(vrt.Config{}, corpus, c.Rounds, rx.HookCfg{})
	h.Eval(len(c.Rounds) > 1)
	h.AddTransitions(int64(len(c.Rounds)))
	h.Trace()
	if x.Diverged != "" {
		h.Fatal("diverged: %s", x.Diverged)
	}
	if o.Setup != "" && len(obs) == 0 {
		h.Violate("C03|setup", fmt.Sprintf("%+v: %s", c.Rounds, o.Setup), c)
		return nil
	}
	ok := check(c, obs, o)
	if ok && o.Failure != "" {
		h.Violate("C03|"+strings.SplitN(o.Failure, ":", 2)[0], fmt.Sprintf("%+v: %s", c.Rounds, o.Failure), c)
		ok = false
	}
	if ok {
		h.Outcome("round-ok-" + c.Rounds[len(c.Rounds)-1].Beh)
		// the post-state of a completed round
		k := sha1.Sum([]byte(obs[len(obs)-1].Post))
		if !postStates[k] {
			postStates[k] = true
			h.State()
		}
		// differential: the last round must look the same as when it is the first round
		if len(c.Rounds) > 1 {
			last := c.Rounds[len(c.Rounds)-1]
			if b, ok := firstRound[key(last)]; ok {
				l := obs[len(obs)-1]
				if strings.Join(l.Seen, "\n") != strings.Join(b.Seen, "\n") || l.Ret != b.Ret {
					h.Violate("C03|history-dependent|"+last.Beh, fmt.Sprintf("%+v: the last round behaves differently than as a first round: saw %v (%s) vs %v (%s)", c.Rounds, l.Seen, l.Ret, b.Seen, b.Ret), c)
				}
			}
		}
	} else {
		h.Outcome("violation")
	}
	return obs
}

// exploreSchedules runs the rounds under all schedules with at most bound deviations.
func exploreSchedules(c Case, bound int) {
	var obs []rx.RoundObs
	var o rx.Obs
	st := vrt.ExploreFn(vrt.ExploreCfg{Base: vrt.Config{Preempt: true, MaxSteps: 50000}, Bound: bound, Deadline: h.Deadline(),
		Check: func(x *vrt.Exec) (string, string) {
			if x.Failure != nil && x.Failure.Kind != "deadlock" {
				return "C03|" + x.Failure.Kind, x.Failure.String()
			}
			if o.Setup != "" && len(obs) == 0 {
				return "C03|setup", o.Setup
			}
			if sig, det := judge(c, obs, o); sig != "" {
				return sig + "|under-schedule", det
			}
			if x.Failure != nil {
				return "C03|" + x.Failure.Kind, x.Failure.String()
			}
			return "", ""
		},
		OnViolation: func(sig, det string, choices []int, x *vrt.Exec) {
			cc := c
			cc.Choices = choices
			h.Violate(sig, fmt.Sprintf("schedule %v: %s", choices, det), cc)
		}}, func(cfg vrt.Config) *vrt.Exec {
		var x *vrt.Exec
		obs, o, x = rx.RunRounds(cfg, corpus, c.Rounds, rx.HookCfg{})
		return x
	})
	if st.Diverged != "" {
		h.Fatal("diverged: %s", st.Diverged)
	}
	if st.Capped != "" {
		h.Cap(fmt.Sprintf("schedule exploration of %+v: %s", c.Rounds, st.Capped))
	}
	h.EvalN(st.Execs, st.Execs)
	h.AddTransitions(st.Steps)
	h.AddTraces(st.Execs)
	h.Section("schedules", st.Execs)
}

var firstRound = map[string]rx.RoundObs{}

func key(r rx.Round) string {
	return fmt.Sprintf("%s|%d|%s|%d|%v", r.Resp, r.Pack, r.Beh, r.J, r.NoWait)
}

func main() {
	h = hlib.Init("C03")
	for _, r := range rx.Corpus() {
		corpus[r.Name] = r
	}
	// shapes special to this property
	for _, r := range extraShapes() {
		corpus[r.Name] = r
	}
	var rc Case
	if h.ReplayCase(&rc) {
		if len(rc.Choices) > 0 {
			obs, o, x := rx.RunRounds(vrt.Config{Preempt: true, MaxSteps: 50000, Choices: rc.Choices}, corpus, rc.Rounds, rx.HookCfg{})
			if x.Diverged != "" {
				h.Fatal("replay diverged: %s", x.Diverged)
			}
			if sig, det := judge(rc, obs, o); sig != "" {
				h.Violate(sig+"|under-schedule", det, rc)
			}
		} else {
			for i, ro := range run(rc) {
				fmt.Printf("replay: round %d: seen %v; returned %q; leftover %q\n", i, ro.Seen, ro.Ret, ro.Leftover)
			}
			if os.Getenv("VERIF_TRACE") != "" {
				_, _, x := rx.RunRounds(vrt.Config{TraceOps: true}, corpus, rc.Rounds, rx.HookCfg{})
				for _, l := range x.Trace {
					fmt.Println("trace:", l)
				}
			}
		}
		h.ReplayReport()
	}
	shapes := []string{"done-final", "done-count", "rows", "two-result-sets", "returnstatus-doneproc", "eed-error-then-done", "done-more-last", "no-done-at-all",
		"envchange-done", "eed-info-only", "envchange-only", "eed-info-alone", "eed-mixed", "proc-output-params", "eed-last"}
	var all []rx.Round
	for _, s := range shapes {
		ne := len(nonEED(rx.Expected(corpus[s])))
		for pack := 0; pack <= 4; pack++ {
			if pack > 0 && len(rx.CutsFor(corpus[s], pack)) == 0 {
				continue
			}
			all = append(all, rx.Round{Resp: s, Pack: pack, Beh: "next"})
			all = append(all, rx.Round{Resp: s, Pack: pack, Beh: "nil-callback"})
			for j := 0; j < ne; j++ {
				for _, b := range []string{"until-true", "until-eof", "until-err", "until-errw"} {
					if pack != 0 && pack != 2 && j != 0 && j != ne-1 {
						continue // every j for two packetisations, first/last j for the others
					}
					all = append(all, rx.Round{Resp: s, Pack: pack, Beh: b, J: j})
				}
			}
		}
	}
	// the polling variant of NextPackageUntil (wait=false), also against a consumer-paced server (pack 7):
	// its later packets (cut inside the last package) are sent only once the client waits inside the
	// library or has returned from its call
	for _, s := range shapes {
		ne := len(nonEED(rx.Expected(corpus[s])))
		for _, pack := range []int{0, 2, 7} {
			if pack > 0 && len(rx.CutsFor(corpus[s], 2)) == 0 {
				continue
			}
			all = append(all, rx.Round{Resp: s, Pack: pack, Beh: "nil-callback", NoWait: true})
			for j := 0; j < ne; j++ {
				for _, b := range []string{"until-true", "until-eof", "until-err", "until-errw"} {
					all = append(all, rx.Round{Resp: s, Pack: pack, Beh: b, J: j, NoWait: true})
				}
			}
		}
	}
	h.R.Extra["round_alphabet"] = len(all)
	// depth 1 (every shard: needed as the differential baseline; counted once)
	h.Quiet = h.R.Shard != 0
	for _, r := range all {
		obs := run(Case{Rounds: []rx.Round{r}})
		if len(obs) == 1 {
			firstRound[key(r)] = obs[0]
		}
		h.Section("depth-1", 1)
	}
	h.Quiet = false
	// depth 2: all ordered pairs; quick reduces the FIRST round to the distinct post-state representatives
	firsts := all
	if !h.Thorough {
		firsts = nil
		seen := map[string]bool{}
		for _, r := range all {
			k := r.Resp + "|" + r.Beh
			if r.Beh != "next" && r.J != 0 {
				continue
			}
			if r.Pack != 0 && r.Pack != 2 {
				continue
			}
			if !seen[k+fmt.Sprint(r.Pack)] {
				seen[k+fmt.Sprint(r.Pack)] = true
				firsts = append(firsts, r)
			}
		}
	}
	idx := 0
	for _, a := range firsts {
		idx++
		if !h.Mine(idx) {
			continue
		}
		if h.Expired("depth-2 enumeration cut short") {
			break
		}
		for _, b := range all {
			c := Case{Rounds: []rx.Round{a, b}}
			run(c)
			h.Sample(func() interface{} { return c })
			h.Section("depth-2", 1)
		}
	}
	// histories of two rounds under ALL schedules with a bounded number of deviations (sender vs reader vs peer)
	sb := 2
	if h.Thorough {
		sb = 3
	}
	firstSet := []rx.Round{{Resp: "done-final", Beh: "next"}, {Resp: "rows", Beh: "next"}, {Resp: "done-count", Beh: "until-err"}}
	secondSet := []rx.Round{{Resp: "done-count", Beh: "next"}, {Resp: "envchange-only", Beh: "next"}, {Resp: "rows", Beh: "until-err"}, {Resp: "no-done-at-all", Beh: "next"},
		{Resp: "rows", Pack: 6, Beh: "next"}, {Resp: "returnstatus-doneproc", Pack: 6, Beh: "next"}}
	nFirst, nSecond := len(firstSet), len(secondSet)
	if h.Thorough {
		firstSet = append(firstSet, rx.Round{Resp: "eed-mixed", Beh: "next"}, rx.Round{Resp: "done-final", Pack: 2, Beh: "until-errw"}, rx.Round{Resp: "envchange-only", Beh: "nil-callback"})
		secondSet = append(secondSet, rx.Round{Resp: "done-final", Beh: "next"}, rx.Round{Resp: "eed-last", Beh: "until-true"}, rx.Round{Resp: "two-result-sets", Pack: 2, Beh: "until-eof", J: 2})
	}
	for ai, a := range firstSet {
		for bi, b := range secondSet {
			idx++
			if !h.Mine(idx) {
				continue
			}
			if h.Expired("schedule exploration cut short") {
				break
			}
			bound := sb
			if ai >= nFirst || bi >= nSecond {
				bound = 2 // the additional thorough histories at the quick bound; the base set one deviation deeper
			}
			exploreSchedules(Case{Rounds: []rx.Round{a, b}}, bound)
		}
	}
	h.R.Extra["schedule_deviation_bound"] = sb
	// depth 3 on a reduced alphabet
	var red []rx.Round
	for _, r := range all {
		if r.Pack == 0 && (r.Beh == "next" || (r.Beh == "until-err" && r.J == 0) || r.Beh == "nil-callback") {
			red = append(red, r)
		}
	}
	if h.Thorough {
		for _, a := range red {
			for _, b := range red {
				idx++
				if !h.Mine(idx) {
					continue
				}
				if h.Expired("depth-3 enumeration cut short") {
					break
				}
				for _, c3 := range red {
					run(Case{Rounds: []rx.Round{a, b, c3}})
					h.Section("depth-3", 1)
				}
			}
		}
	}
	h.Done()
}
