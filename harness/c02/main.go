//go:build vrt

// C02 — the received package stream does not depend on fragmentation.
// Differential, exhaustive within bounds: every response of the corpus is
// delivered in one packet and one read (baseline, itself compared with the
// reference decoding), then under every cut set (all 2^(n-1) for short
// streams, all 1- and 2-cuts otherwise) and every 1-/2-split of the TCP byte
// stream into read results; each is one controlled execution of the real
// Conn reader + Channel.
package main

import (
	"fmt"
	"strings"

	"github.com/SAP/go-dblib/tds"
	"github.com/SAP/go-dblib/vrt"
	"verif/harness/rx"
	"verif/hlib"
	"verif/ref/tdspkg"
)

type Case struct {
	Resp  string `json:"resp"`
	Cuts  []int  `json:"cuts,omitempty"`  // packet boundaries inside the response body
	Reads []int  `json:"reads,omitempty"` // offsets at which the TCP stream is split into read results
	Prev  string `json:"prev,omitempty"`  // a complete earlier response on the same channel (delivered in one packet and drained first)
	// ZeroTimeout: the connection's Info carries PacketReadTimeout 0 (an Info that was never given one)
	ZeroTimeout bool `json:"zeroTimeout,omitempty"`
}

var h *hlib.H
var corpus = map[string]rx.Response{}

func deliver(c Case) (rx.Obs, *vrt.Exec) {
	r := corpus[c.Resp]
	pk := rx.Packets(r.Bytes(), c.Cuts)
	chunks := rx.OneChunk(pk)
	if len(c.Reads) > 0 {
		chunks = rx.SplitStream(pk, c.Reads)
	}
	if c.Prev != "" {
		chunks = append(rx.OneChunk(rx.Packets(corpus[c.Prev].Bytes(), nil)), chunks...)
	}
	return rx.Deliver(vrt.Config{}, rx.Script{Chunks: chunks, ZeroTimeout: c.ZeroTimeout}, func(conn *tds.Conn, ch *tds.Channel, pipe *vrt.Pipe, o *rx.Obs) {
		if c.Prev != "" {
			rx.Drain(ch, 300)
		}
		o.Items = rx.Drain(ch, 300)
	})
}

// expected delivery according to the reference decoding and the round model
func expected(r rx.Response) []string {
	var out []string
	lastFinal := false
	for _, p := range r.Pkgs {
		lastFinal = false
		switch x := p.(type) {
		case tdspkg.EnvChange:
			continue
		case tdspkg.EED:
			if x.Status&0x2 != 0 {
				continue
			}
		case tdspkg.Done:
			lastFinal = x.Status == 0 // DONEPROC/DONEINPROC are delivered as DONE packages too
		}
		out = append(out, rx.RefDesc(p))
	}
	if !lastFinal {
		out = append(out, "DONE status=0x0 tran=0 count=0")
	}
	return out
}

var baselines = map[string]rx.Obs{}

func cutClass(c Case, n int) string {
	switch {
	case len(c.Reads) > 0:
		for _, r := range c.Reads {
			// position inside a packet header?
			off := 0
			pk := rx.Packets(corpus[c.Resp].Bytes(), c.Cuts)
			for _, p := range pk {
				if r > off && r < off+8 {
					return "read-splits-header"
				}
				off += len(p)
			}
		}
		return "read-splits-body"
	case len(c.Cuts) == 0:
		return "single-packet"
	}
	if c.Prev != "" {
		return fmt.Sprintf("%d-cuts-after-earlier-response", min(len(c.Cuts), 3))
	}
	return fmt.Sprintf("%d-cuts", min(len(c.Cuts), 3))
}

func min(a, b int) int {
	if a < b {
		return a
	}
	return b
}

func run(c Case) {
	r, ok := corpus[c.Resp]
	if !ok {
		h.Fatal("unknown response %q", c.Resp)
	}
	o, x := deliver(c)
	h.Eval(len(c.Cuts)+len(c.Reads) > 0)
	h.AddTransitions(int64(x.Steps))
	h.State()
	h.Trace()
	cls := cutClass(c, len(r.Bytes()))
	if x.Diverged != "" {
		h.Fatal("diverged: %s", x.Diverged)
	}
	if o.Failure != "" || o.Setup != "" {
		h.Violate("C02|"+strings.SplitN(o.Failure, ":", 2)[0]+"|"+cls, fmt.Sprintf("%s cuts=%v reads=%v: %s %s; delivered so far: %v", c.Resp, c.Cuts, c.Reads, o.Failure, o.Setup, o.Descs()), c)
		return
	}
	if len(c.Cuts) == 0 && len(c.Reads) == 0 && c.Prev == "" {
		// baseline against the reference
		want := expected(r)
		got := o.Descs()
		if strings.Join(got, "\n") != strings.Join(want, "\n") {
			k := firstDiff(got, want)
			g, w := "<nothing>", "<nothing>"
			if k < len(got) {
				g = got[k]
			}
			if k < len(want) {
				w = want[k]
			}
			d := 0
			for d < len(g) && d < len(w) && g[d] == w[d] {
				d++
			}
			lo := d - 120
			if lo < 0 {
				lo = 0
			}
			win := func(x string) string {
				hi := d + 160
				if hi > len(x) {
					hi = len(x)
				}
				if lo > len(x) {
					return ""
				}
				return x[lo:hi]
			}
			h.Violate("C02|baseline-differs-from-reference|"+kindAt(want, got, k), fmt.Sprintf("%s delivered in one packet and one read: package %d differs at character %d\n got: …%s\nwant: …%s", c.Resp, k, d, win(g), win(w)), c)
		}
		baselines[c.Resp] = o
		h.Outcome("baseline")
		return
	}
	b, ok := baselines[c.Resp]
	if !ok {
		bo, _ := deliver(Case{Resp: c.Resp})
		baselines[c.Resp] = bo
		b = bo
	}
	if o.Key() != b.Key() {
		got, want := o.Descs(), b.Descs()
		k := firstDiff(got, want)
		what := "values-differ"
		if strings.Join(got, "\n") != strings.Join(want, "\n") {
			what = "sequence-differs"
			if len(got) > 0 && strings.HasPrefix(got[len(got)-1], "error:") {
				what = "error:" + errClass(got[len(got)-1])
			}
		}
		h.Violate("C02|"+what+"|"+cls, fmt.Sprintf("%s cuts=%v reads=%v (stream of %d bytes): delivery differs from the single-packet single-read delivery at package %d\n got: %s\nwant: %s", c.Resp, c.Cuts, c.Reads, len(r.Bytes()), k, at(got, k), at(want, k)), c)
		h.Outcome("differs")
		return
	}
	h.Outcome("same-" + cls)
}

func errClass(s string) string {
	switch {
	case strings.Contains(s, "context deadline"):
		return "no-final-done(timeout)"
	case strings.Contains(s, "expected bytes from reader"):
		return "header-read-split"
	case strings.Contains(s, "error parsing package"):
		return "parse-error"
	}
	if len(s) > 60 {
		s = s[:60]
	}
	return s
}

func at(s []string, i int) string {
	if i < len(s) {
		x := s[i]
		if len(x) > 300 {
			x = x[:300] + "…"
		}
		return x
	}
	return "<nothing>"
}

func kindAt(want, got []string, k int) string {
	w := at(want, k)
	return strings.SplitN(w, " ", 2)[0]
}

func firstDiff(a, b []string) int {
	for i := 0; i < len(a) && i < len(b); i++ {
		if a[i] != b[i] {
			return i
		}
	}
	return min(len(a), len(b))
}

func main() {
	h = hlib.Init("C02")
	for _, r := range rx.Corpus() {
		corpus[r.Name] = r
	}
	var rc Case
	if h.ReplayCase(&rc) {
		run(rc)
		h.ReplayReport()
	}
	allCutsMax, twoCutsMax, readTwoMax := 13, 100, 40
	if h.Thorough {
		allCutsMax, twoCutsMax, readTwoMax = 18, 400, 120
	}
	idx := 0
	for _, r := range rx.Corpus() {
		n := len(r.Bytes())
		// baseline by every shard (needed for the comparison), counted once
		h.Quiet = h.R.Shard != 0
		run(Case{Resp: r.Name})
		h.Quiet = false
		if _, ok := baselines[r.Name]; !ok {
			continue
		}
		// --- packet level
		if n <= allCutsMax {
			for m := 1; m < 1<<uint(n-1); m++ {
				idx++
				if !h.Mine(idx) {
					continue
				}
				var cuts []int
				for b := 0; b < n-1; b++ {
					if m&(1<<uint(b)) != 0 {
						cuts = append(cuts, b+1)
					}
				}
				c := Case{Resp: r.Name, Cuts: cuts}
				run(c)
				h.Sample(func() interface{} { return c })
				h.Section("all-cut-sets", 1)
			}
		} else {
			for a := 1; a < n; a++ {
				idx++
				if !h.Mine(idx) {
					continue
				}
				if h.Expired("cut enumeration cut short at " + r.Name) {
					break
				}
				run(Case{Resp: r.Name, Cuts: []int{a}})
				h.Section("1-cuts", 1)
				// the same packetisation as the SECOND response on the channel
				for _, prev := range []string{"done-final", "done-count"} {
					run(Case{Resp: r.Name, Cuts: []int{a}, Prev: prev})
					h.Section("1-cuts-after-earlier-response", 1)
				}
				if n <= twoCutsMax {
					for b := a + 1; b < n; b++ {
						c := Case{Resp: r.Name, Cuts: []int{a, b}}
						run(c)
						h.Sample(func() interface{} { return c })
						h.Section("2-cuts", 1)
					}
				} else {
					// long streams: second cut near the first and at the far end
					for _, b := range []int{a + 1, a + 2, n - 1} {
						if b > a && b < n {
							run(Case{Resp: r.Name, Cuts: []int{a, b}})
							h.Section("2-cuts(reduced)", 1)
						}
					}
				}
			}
		}
		// --- read level: single packet and the middle 2-cut packetisation
		for _, cuts := range [][]int{nil, {n / 3, 2 * n / 3}} {
			if len(cuts) > 0 && (cuts[0] < 1 || cuts[1] <= cuts[0] || cuts[1] >= n) {
				continue
			}
			total := n + 8*(len(cuts)+1)
			for p := 1; p < total; p++ {
				idx++
				if !h.Mine(idx) {
					continue
				}
				if h.Expired("read split enumeration cut short at " + r.Name) {
					break
				}
				c := Case{Resp: r.Name, Cuts: cuts, Reads: []int{p}}
				run(c)
				h.Sample(func() interface{} { return c })
				h.Section("1-read-splits", 1)
				run(Case{Resp: r.Name, Cuts: cuts, Reads: []int{p}, ZeroTimeout: true})
				h.Section("1-read-splits-zero-read-timeout", 1)
				if total <= readTwoMax {
					for q := p + 1; q < total; q++ {
						run(Case{Resp: r.Name, Cuts: cuts, Reads: []int{p, q}})
						h.Section("2-read-splits", 1)
					}
				}
			}
		}
	}
	h.Done()
}
