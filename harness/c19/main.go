// C19 — a version has a capability exactly inside the capability's ranges.
// Bounded-exhaustive enumeration of range lists over a version grid, on the
// real capability.Target; oracle: interval membership on an independently
// parsed semantic version.
package main

import (
	"fmt"
	"strconv"
	"strings"

	"github.com/SAP/go-dblib/capability"
	"verif/hlib"
)

type Case struct {
	Cmp     string        `json:"cmp"` // "semver" | "int" | "lex"
	Version string        `json:"version"`
	Caps    [][][2]string `json:"caps"`          // per capability: list of [lower, upper]
	Odd     bool          `json:"odd,omitempty"` // last range of cap 0 given as a single trailing lower bound
	// Reeval: Caps[0] and Caps[1] are two successive range lists of ONE capability; ONE Version object
	// is evaluated under the first, the capability's ranges are replaced, and it is evaluated again
	Reeval bool `json:"reeval,omitempty"`
}

var h *hlib.H

// ---- independent semver (semver.org 2.0 precedence; build metadata ignored) ----

type sv struct {
	num [3]int
	pre []string
}

func parseSemver(s string) (sv, bool) {
	var v sv
	if i := strings.IndexByte(s, '+'); i >= 0 {
		if i == len(s)-1 {
			return v, false
		}
		s = s[:i]
	}
	if i := strings.IndexByte(s, '-'); i >= 0 {
		p := s[i+1:]
		if p == "" {
			return v, false
		}
		v.pre = strings.Split(p, ".")
		s = s[:i]
	}
	parts := strings.Split(s, ".")
	if len(parts) != 3 {
		return v, false
	}
	for i, p := range parts {
		if p == "" {
			return v, false
		}
		for _, c := range p {
			if c < '0' || c > '9' {
				return v, false
			}
		}
		n, err := strconv.Atoi(p)
		if err != nil {
			return v, false
		}
		v.num[i] = n
	}
	return v, true
}

func isNum(s string) (int, bool) {
	if s == "" {
		return 0, false
	}
	for _, c := range s {
		if c < '0' || c > '9' {
			return 0, false
		}
	}
	n, _ := strconv.Atoi(s)
	return n, true
}

func cmpSemver(a, b sv) int {
	for i := 0; i < 3; i++ {
		if a.num[i] != b.num[i] {
			if a.num[i] < b.num[i] {
				return -1
			}
			return 1
		}
	}
	switch {
	case len(a.pre) == 0 && len(b.pre) == 0:
		return 0
	case len(a.pre) == 0:
		return 1
	case len(b.pre) == 0:
		return -1
	}
	for i := 0; i < len(a.pre) && i < len(b.pre); i++ {
		x, y := a.pre[i], b.pre[i]
		if x == y {
			continue
		}
		xn, xok := isNum(x)
		yn, yok := isNum(y)
		switch {
		case xok && yok:
			if xn < yn {
				return -1
			}
			return 1
		case xok:
			return -1
		case yok:
			return 1
		default:
			if x < y {
				return -1
			}
			return 1
		}
	}
	switch {
	case len(a.pre) < len(b.pre):
		return -1
	case len(a.pre) > len(b.pre):
		return 1
	}
	return 0
}

// refCmp returns (cmp, ok) under the named comparer, independent of the library.
func refCmp(kind, a, b string) (int, bool) {
	if kind == "lex" {
		return strings.Compare(a, b), true
	}
	if kind == "int" {
		x, ok1 := isNum(a)
		y, ok2 := isNum(b)
		if !ok1 || !ok2 {
			return 0, false
		}
		switch {
		case x < y:
			return -1, true
		case x > y:
			return 1, true
		}
		return 0, true
	}
	x, ok1 := parseSemver(a)
	y, ok2 := parseSemver(b)
	if !ok1 || !ok2 {
		return 0, false
	}
	return cmpSemver(x, y), true
}

func parsable(kind, a string) bool { _, ok := refCmp(kind, a, a); return ok }

func intComparer(a, b string) (int, error) {
	x, err := strconv.Atoi(a)
	if err != nil {
		return 0, err
	}
	y, err := strconv.Atoi(b)
	if err != nil {
		return 0, err
	}
	switch {
	case x < y:
		return -1, nil
	case x > y:
		return 1, nil
	}
	return 0, nil
}

// verdict of the reference for one capability
type verdict int

const (
	mustFalse verdict = iota
	mustTrue
	mustError
	unspecified // both-bounds-empty range decides
	errorOrTrue // ill-formed range present but possibly not evaluated
)

// refCap computes what the statement demands for version v and ranges rs,
// evaluated in order (the statement ties errors to evaluation).
func refCap(kind, v string, rs [][2]string) (verdict, string) {
	if len(rs) == 0 {
		return mustFalse, "no range"
	}
	vOK := parsable(kind, v)
	sawBothEmpty, anyIll, anyBounded, contained := false, false, false, false
	illWhy := ""
	for _, r := range rs {
		lo, hi := r[0], r[1]
		if lo == "" && hi == "" {
			sawBothEmpty = true
			continue
		}
		anyBounded = true
		if (lo != "" && !parsable(kind, lo)) || (hi != "" && !parsable(kind, hi)) {
			anyIll, illWhy = true, "unparsable-bound"
			continue
		}
		if lo != "" && hi != "" {
			if c, _ := refCmp(kind, lo, hi); c >= 0 {
				anyIll, illWhy = true, "inverted-or-zero-width"
				continue
			}
		}
		if !vOK {
			continue
		}
		in := true
		if lo != "" {
			if c, _ := refCmp(kind, lo, v); c > 0 {
				in = false
			}
		}
		if hi != "" {
			if c, _ := refCmp(kind, v, hi); c >= 0 {
				in = false
			}
		}
		if in {
			contained = true
		}
	}
	switch {
	case !vOK && anyBounded:
		return mustError, "unparsable-version evaluated against a bounded range"
	case !vOK:
		return unspecified, "unparsable version, only both-empty ranges"
	case anyIll && contained:
		// an implementation may stop at a containing range before it evaluates the ill-formed one
		return errorOrTrue, illWhy + " range next to a containing range"
	case anyIll:
		return mustError, illWhy + " range must be evaluated (no range contains the version)"
	case contained:
		return mustTrue, "in range"
	case sawBothEmpty:
		return unspecified, "only a both-bounds-empty range could contain it"
	}
	return mustFalse, "in no range"
}

func wellFormed(kind, v string, caps [][][2]string) bool {
	if !parsable(kind, v) {
		return false
	}
	for _, rs := range caps {
		for _, r := range rs {
			if r[0] == "" && r[1] == "" {
				return false
			}
			if (r[0] != "" && !parsable(kind, r[0])) || (r[1] != "" && !parsable(kind, r[1])) {
				return false
			}
			if r[0] != "" && r[1] != "" {
				if c, _ := refCmp(kind, r[0], r[1]); c >= 0 {
					return false
				}
			}
		}
	}
	return true
}

type obs struct {
	err error
	has []bool
}

func exec(c Case) (o obs, pan bool, msg string) {
	pan, msg = hlib.Catch(func() {
		t := capability.Target{}
		if c.Cmp == "int" {
			t.VersionComparer = intComparer
		}
		if c.Cmp == "lex" {
			t.VersionComparer = func(a, b string) (int, error) { return strings.Compare(a, b), nil }
		}
		var caps []*capability.Capability
		for i, rs := range c.Caps {
			var args []string
			for j, r := range rs {
				if c.Odd && i == 0 && j == len(rs)-1 && r[1] == "" && r[0] != "" {
					args = append(args, r[0])
				} else {
					args = append(args, r[0], r[1])
				}
			}
			cp := capability.NewCapability(fmt.Sprintf("cap%d", i), args...)
			caps = append(caps, cp)
		}
		t.Capabilities = caps
		v, err := t.Version(c.Version)
		o.err = err
		if err == nil {
			for _, cp := range caps {
				o.has = append(o.has, v.Has(cp))
			}
			other := capability.NewCapability("not in target", "0.0.1")
			if v.Has(other) {
				o.err = fmt.Errorf("Has reports a capability that is not part of the target")
			}
		}
	})
	return
}

// runReeval: a Version that already carries results is evaluated again after the ranges changed;
// what it reports must be what a fresh Version reports under the new ranges.
func runReeval(c Case) {
	h.Eval(true)
	h.Section("re-evaluation", 1)
	flat := func(rs [][2]string) []string {
		var a []string
		for _, r := range rs {
			a = append(a, r[0], r[1])
		}
		return a
	}
	var has1, has2 bool
	var err1, err2 error
	pan, msg := hlib.Catch(func() {
		cp := capability.NewCapability("cap", flat(c.Caps[0])...)
		t := capability.Target{Capabilities: []*capability.Capability{cp}}
		if c.Cmp == "int" {
			t.VersionComparer = intComparer
		}
		v := capability.NewDefaultVersion(c.Version)
		err1 = t.SetCapabilities(v)
		has1 = v.Has(cp)
		cp.VersionRanges = capability.NewCapability("cap", flat(c.Caps[1])...).VersionRanges
		err2 = t.SetCapabilities(v)
		has2 = v.Has(cp)
	})
	if pan {
		h.Violate("C19|reeval|panic", fmt.Sprintf("%+v: %s", c, msg), c)
		return
	}
	_ = has1
	if err1 != nil {
		return // the first evaluation is an ordinary case of its own
	}
	if len(c.Caps[1]) == 0 {
		h.Outcome("unspecified") // all ranges removed after an evaluation: nothing is evaluated, the statement does not say what remains
		return
	}
	vd, why := refCap(c.Cmp, c.Version, c.Caps[1])
	switch {
	case vd == mustTrue && (err2 != nil || !has2):
		h.Violate("C19|reeval|missing", fmt.Sprintf("%+v: after the ranges were replaced the version is %s, the re-evaluated Version says Has=%v err=%v", c, why, has2, err2), c)
	case vd == mustFalse && (err2 != nil || has2):
		h.Violate("C19|reeval|stale", fmt.Sprintf("%+v: after the ranges were replaced the version is %s, the re-evaluated Version still says Has=%v (err=%v)", c, why, has2, err2), c)
	case vd == mustError && err2 == nil:
		h.Violate("C19|reeval|silent-answer", fmt.Sprintf("%+v: %s, the re-evaluation returned no error (Has=%v)", c, why, has2), c)
	default:
		h.Outcome("reeval-ok")
	}
}

func run(c Case) {
	if c.Reeval {
		runReeval(c)
		return
	}
	// NewCapability pairs strings; a both-empty pair in the middle is kept as a range.
	o, pan, msg := exec(c)
	nontrivial := false
	for _, rs := range c.Caps {
		if len(rs) > 0 {
			nontrivial = true
		}
	}
	h.Eval(nontrivial)
	if pan {
		h.Violate("C19|panic", fmt.Sprintf("%+v panicked: %s", c, msg), c)
		return
	}
	// per capability verdicts, evaluated in target order: an error in an earlier
	// capability hides the later ones.
	for i, rs := range c.Caps {
		vd, why := refCap(c.Cmp, c.Version, rs)
		if o.err != nil {
			h.Outcome("error")
			if vd == mustError || vd == errorOrTrue {
				return // demanded (or at least allowed) error
			}
			// error although this capability is fine: only acceptable if a later capability demands it
			later := false
			for _, rs2 := range c.Caps[i+1:] {
				if v2, _ := refCap(c.Cmp, c.Version, rs2); v2 == mustError || v2 == errorOrTrue {
					later = true
				}
			}
			if later {
				continue
			}
			if wellFormed(c.Cmp, c.Version, c.Caps) {
				h.Violate("C19|wellformed-rejected", fmt.Sprintf("%+v: error %v for well-formed input", c, o.err), c)
			} else if vd != unspecified {
				// ill-formed somewhere (e.g. both-empty + unparsable version): unspecified region
				h.Outcome("error-unspecified")
			}
			return
		}
		got := o.has[i]
		switch vd {
		case mustError:
			h.Violate("C19|silent-answer|"+strings.Fields(why)[0], fmt.Sprintf("%+v: capability %d: %s, but got Has=%v and no error", c, i, why, got), c)
			return
		case mustTrue:
			if !got {
				cls := "single"
				if len(rs) > 1 {
					cls = "multi-range"
				}
				h.Violate("C19|missing|"+cls, fmt.Sprintf("%+v: capability %d should be reported (%s), Has=false", c, i, why), c)
				return
			}
			h.Outcome("has")
		case mustFalse:
			if got {
				h.Violate("C19|spurious", fmt.Sprintf("%+v: capability %d must not be reported (%s), Has=true", c, i, why), c)
				return
			}
			h.Outcome("hasnot")
		case errorOrTrue:
			if !got {
				h.Violate("C19|missing|next-to-illformed", fmt.Sprintf("%+v: capability %d: %s, got Has=false without error", c, i, why), c)
				return
			}
			h.Outcome("has")
		case unspecified:
			h.Outcome("unspecified")
		}
	}
}

func permutations(n int) [][]int {
	if n == 0 {
		return [][]int{{}}
	}
	var out [][]int
	var rec func(cur []int, used []bool)
	rec = func(cur []int, used []bool) {
		if len(cur) == n {
			out = append(out, append([]int{}, cur...))
			return
		}
		for i := 0; i < n; i++ {
			if !used[i] {
				used[i] = true
				rec(append(cur, i), used)
				used[i] = false
			}
		}
	}
	rec(nil, make([]bool, n))
	return out
}

func main() {
	h = hlib.Init("C19")
	var rc Case
	if h.ReplayCase(&rc) {
		run(rc)
		h.ReplayReport()
	}
	grid := []string{"0.9.0", "1.0.0-alpha", "1.0.0-alpha.1", "1.0.0-rc.1", "1.0.0", "1.0.0+b1", "1.0.1", "1.2.0", "1.10.0", "2.0.0", "2.0.0-beta.2", "10.0.0", "1.0.0-rc.1+b7", "2.0.0-beta.2+exp.1"}
	bad := []string{"", "x.y.z", "1..0"}
	// "cannot parse" is relative to the comparer: the grid must be classified identically by the
	// default comparer and by the reference parser, otherwise the grid (not the code) is wrong.
	for _, v := range append(append([]string{}, grid...), bad...) {
		// compared with a partner that certainly parses, in both positions (a comparer may
		// legitimately short-cut identical arguments)
		_, err := capability.VersionCompareSemantic(v, "1.0.0")
		if _, err2 := capability.VersionCompareSemantic("1.0.0", v); err == nil {
			err = err2
		}
		if (err == nil) != parsable("semver", v) {
			h.Fatal("grid string %q: comparer parses=%v reference parses=%v", v, err == nil, parsable("semver", v))
		}
	}
	versions := append(append([]string{}, grid...), bad...)
	bounds := append([]string{""}, grid...)
	bounds = append(bounds, "x.y.z")
	var ranges [][2]string
	for _, lo := range bounds {
		for _, hi := range bounds {
			ranges = append(ranges, [2]string{lo, hi})
		}
	}
	idx := 0
	emit := func(kind string, list [][2]string, vs []string, perms bool) {
		ps := [][]int{nil}
		if perms {
			ps = permutations(len(list))
		} else {
			id := make([]int, len(list))
			for i := range id {
				id[i] = i
			}
			ps = [][]int{id}
		}
		for _, v := range vs {
			var first *obs
			wf := wellFormed(kind, v, [][][2]string{list})
			for _, p := range ps {
				pl := make([][2]string, len(list))
				for i, j := range p {
					pl[i] = list[j]
				}
				c := Case{Cmp: kind, Version: v, Caps: [][][2]string{pl}}
				run(c)
				h.Sample(func() interface{} { return c })
				if wf {
					o, _, _ := exec(c)
					if first == nil {
						first = &o
					} else if (o.err == nil) != (first.err == nil) || (o.err == nil && o.has[0] != first.has[0]) {
						h.Violate("C19|order-dependent|ranges", fmt.Sprintf("%+v: outcome differs from another permutation of the same well-formed ranges", c), c)
					}
				}
			}
		}
	}
	// 0 ranges
	emit("semver", nil, versions, false)
	// 1 and 2 ranges over the full grid
	for _, r := range ranges {
		idx++
		if h.Mine(idx) {
			emit("semver", [][2]string{r}, versions, false)
			// odd-argument form of NewCapability (single trailing lower bound)
			if r[1] == "" && r[0] != "" {
				for _, v := range versions {
					run(Case{Cmp: "semver", Version: v, Caps: [][][2]string{{r}}, Odd: true})
				}
			}
		}
	}
	h.Section("one-range", int64(len(ranges)))
	for i, r1 := range ranges {
		idx++
		if !h.Mine(idx) {
			continue
		}
		for j, r2 := range ranges {
			if j < i {
				continue // permutations cover the other order
			}
			emit("semver", [][2]string{r1, r2}, versions, true)
			h.Section("two-ranges", 1)
		}
	}
	// 3 (and thorough: 4) ranges over a sub-grid
	sub := []string{"", "1.0.0-rc.1", "1.0.0", "1.2.0", "2.0.0"}
	subV := []string{"0.9.0", "1.0.0-rc.1", "1.0.0", "1.0.1", "1.2.0", "2.0.0", "10.0.0", "x.y.z"}
	var sr [][2]string
	for _, lo := range sub {
		for _, hi := range sub {
			sr = append(sr, [2]string{lo, hi})
		}
	}
	for i := range sr {
		idx++
		if !h.Mine(idx) {
			continue
		}
		for j := i; j < len(sr); j++ {
			for k := j; k < len(sr); k++ {
				emit("semver", [][2]string{sr[i], sr[j], sr[k]}, subV, true)
				h.Section("three-ranges", 1)
			}
		}
	}
	if h.Thorough {
		sub4 := []string{"", "1.0.0", "1.2.0", "2.0.0"}
		var s4 [][2]string
		for _, lo := range sub4 {
			for _, hi := range sub4 {
				s4 = append(s4, [2]string{lo, hi})
			}
		}
		for i := range s4 {
			idx++
			if !h.Mine(idx) {
				continue
			}
			for j := i; j < len(s4); j++ {
				for k := j; k < len(s4); k++ {
					for l := k; l < len(s4); l++ {
						emit("semver", [][2]string{s4[i], s4[j], s4[k], s4[l]}, subV, true)
						h.Section("four-ranges", 1)
					}
				}
			}
		}
	}
	// two capabilities, both orders, well-formed and ill-formed mixes
	capLists := [][][2]string{{}, {{"1.0.0", "2.0.0"}}, {{"", "1.0.0"}}, {{"1.2.0", ""}}, {{"1.0.0", "1.0.1"}, {"1.2.0", "2.0.0"}},
		{{"2.0.0", "1.0.0"}}, {{"x.y.z", ""}}, {{"1.0.0", "1.0.0"}}, {{"", ""}}}
	for i, a := range capLists {
		for j, b := range capLists {
			idx++
			if !h.Mine(idx) {
				continue
			}
			_ = i
			_ = j
			for _, v := range versions {
				c1 := Case{Cmp: "semver", Version: v, Caps: [][][2]string{a, b}}
				c2 := Case{Cmp: "semver", Version: v, Caps: [][][2]string{b, a}}
				run(c1)
				run(c2)
				if wellFormed("semver", v, c1.Caps) {
					o1, _, _ := exec(c1)
					o2, _, _ := exec(c2)
					if o1.err != nil || o2.err != nil || o1.has[0] != o2.has[1] || o1.has[1] != o2.has[0] {
						h.Violate("C19|order-dependent|capabilities", fmt.Sprintf("%+v vs reversed capability order: outcomes differ", c1), c1)
					}
				}
				h.Section("two-caps", 2)
			}
		}
	}
	// history across comparers: the same range strings evaluated under the default comparer,
	// then under a lexicographic one (which orders "1.10.0" before "1.2.0"), then under each
	// again — whatever an earlier evaluation left behind must not change a later verdict.
	for i, r := range ranges {
		if !h.Mine(i) {
			continue
		}
		for pass := 0; pass < 2; pass++ {
			emit("semver", [][2]string{r}, versions, false)
			emit("lex", [][2]string{r}, versions, false)
		}
		h.Section("cross-comparer", 4)
	}
	// a Version object evaluated twice: every ordered pair of single ranges (and pairs of ranges) of the sub-grid
	for i, r1 := range sr {
		if !h.Mine(i + 3) {
			continue
		}
		for _, r2 := range sr {
			for _, v := range subV {
				run(Case{Cmp: "semver", Version: v, Caps: [][][2]string{{r1}, {r2}}, Reeval: true})
				run(Case{Cmp: "semver", Version: v, Caps: [][][2]string{{r1, r2}, {r2}}, Reeval: true})
			}
		}
	}
	// custom comparer: integers
	ib := []string{"", "1", "2", "3", "5", "10", "x"}
	iv := []string{"0", "1", "2", "3", "4", "5", "9", "10", "11", "x", ""}
	var ir [][2]string
	for _, lo := range ib {
		for _, hi := range ib {
			ir = append(ir, [2]string{lo, hi})
		}
	}
	for i := range ir {
		idx++
		if !h.Mine(idx) {
			continue
		}
		emit("int", [][2]string{ir[i]}, iv, false)
		for j := i; j < len(ir); j++ {
			emit("int", [][2]string{ir[i], ir[j]}, iv, true)
			h.Section("custom-comparer", 1)
		}
	}
	h.Done()
}
