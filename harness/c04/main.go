// C04 — field values survive encoding and decoding unchanged.
// Complete enumeration of the declared value grid (harness/valgrid) through
// the real asetypes.DataType.Bytes / GoValue.
package main

import (
	"encoding/binary"
	"fmt"

	"github.com/SAP/go-dblib/asetypes"
	"verif/harness/valgrid"
	"verif/hlib"
)

var h *hlib.H

func run(v valgrid.Val) {
	h.Eval(v.NonTrivial())
	dt := asetypes.DataType(v.DT)
	var bs []byte
	var err error
	pan, msg := hlib.Catch(func() { bs, err = dt.Bytes(binary.LittleEndian, v.Lib(), int64(v.Len)) })
	sig := "C04|" + v.Name() + "|"
	if pan {
		h.Violate(sig+"encode-panic|"+v.Cls, fmt.Sprintf("%s: Bytes panicked: %s", v, msg), v)
		return
	}
	if err != nil {
		h.Violate(sig+"encode-error|"+v.Cls, fmt.Sprintf("%s: Bytes returned %v", v, err), v)
		return
	}
	if v.K == "nil" {
		if len(bs) != 0 {
			h.Violate(sig+"null-not-empty", fmt.Sprintf("%s: NULL encoded to %d bytes", v, len(bs)), v)
		}
	}
	var got interface{}
	pan, msg = hlib.Catch(func() { got, err = dt.GoValue(binary.LittleEndian, bs) })
	if pan {
		h.Violate(sig+"decode-panic|"+v.Cls, fmt.Sprintf("%s: encoded to %x, GoValue panicked: %s", v, bs, msg), v)
		return
	}
	if err != nil {
		h.Violate(sig+"decode-error|"+v.Cls, fmt.Sprintf("%s: encoded to %x, GoValue returned %v", v, bs, err), v)
		return
	}
	if ok, why := valgrid.SameValue(v, got, valgrid.Tolerance(v)); !ok {
		h.Violate(sig+"roundtrip|"+v.Cls, fmt.Sprintf("%s: encoded to %x, decoded back wrongly: %s", v, trunc(bs), why), v)
		return
	}
	if valgrid.Tolerance(v) > 0 && got != nil {
		// to the tick: re-encoding the decoded value must give the same bytes
		var bs2 []byte
		pan, _ = hlib.Catch(func() { bs2, err = dt.Bytes(binary.LittleEndian, got, int64(v.Len)) })
		if pan || err != nil || string(bs2) != string(bs) {
			h.Violate(sig+"tick-unstable|"+v.Cls, fmt.Sprintf("%s: encoded to %x, decoded to %v, which re-encodes to %x (panic=%v err=%v)", v, bs, got, bs2, pan, err), v)
			return
		}
	}
	h.Outcome("ok-" + v.K)
}

func trunc(b []byte) []byte {
	if len(b) > 32 {
		return b[:32]
	}
	return b
}

func main() {
	h = hlib.Init("C04")
	var rc valgrid.Val
	if h.ReplayCase(&rc) {
		run(rc)
		h.ReplayReport()
	}
	valgrid.Enumerate(h, func(v valgrid.Val) {
		run(v)
		h.Sample(func() interface{} { return v })
	})
	h.Done()
}
