// C04 — field values survive encoding and decoding unchanged.
// Complete enumeration of the declared value grid (harness/valgrid) through
// the real asetypes.DataType.Bytes / GoValue.
package main

import (
	"encoding/binary"
	"fmt"

	"github.com/SAP/go-dblib/asetypes"
	"github.com/SAP/go-dblib/tds"
	"verif/harness/hx"
	"verif/harness/pkgcorpus"
	"verif/harness/valgrid"
	"verif/hlib"
	"verif/ref/tdspkg"
	"verif/ref/tdsval"
)

var h *hlib.H

func run(v valgrid.Val) {
	h.Eval(v.NonTrivial())
	dt := asetypes.DataType(v.DT)
	var bs []byte
	var err error
	pan, msg := hlib.Catch(func() { bs, err = dt.Bytes(binary.LittleEndian, v.Lib(), int64(v.Len)) })
	sig := "C04|" + v.Name() + "|"
	if pan {
		h.Violate(sig+"encode-panic|"+v.Cls, fmt.Sprintf("%s: Bytes panicked: %s", v, msg), v)
		return
	}
	if err != nil {
		h.Violate(sig+"encode-error|"+v.Cls, fmt.Sprintf("%s: Bytes returned %v", v, err), v)
		return
	}
	if v.K == "nil" {
		if len(bs) != 0 {
			h.Violate(sig+"null-not-empty", fmt.Sprintf("%s: NULL encoded to %d bytes", v, len(bs)), v)
		}
	}
	var got interface{}
	pan, msg = hlib.Catch(func() { got, err = dt.GoValue(binary.LittleEndian, bs) })
	if pan {
		h.Violate(sig+"decode-panic|"+v.Cls, fmt.Sprintf("%s: encoded to %x, GoValue panicked: %s", v, bs, msg), v)
		return
	}
	if err != nil {
		h.Violate(sig+"decode-error|"+v.Cls, fmt.Sprintf("%s: encoded to %x, GoValue returned %v", v, bs, err), v)
		return
	}
	if ok, why := valgrid.SameValue(v, got, valgrid.Tolerance(v)); !ok {
		h.Violate(sig+"roundtrip|"+v.Cls, fmt.Sprintf("%s: encoded to %x, decoded back wrongly: %s", v, trunc(bs), why), v)
		return
	}
	if valgrid.Tolerance(v) > 0 && got != nil {
		// to the tick: re-encoding the decoded value must give the same bytes
		var bs2 []byte
		pan, _ = hlib.Catch(func() { bs2, err = dt.Bytes(binary.LittleEndian, got, int64(v.Len)) })
		if pan || err != nil || string(bs2) != string(bs) {
			h.Violate(sig+"tick-unstable|"+v.Cls, fmt.Sprintf("%s: encoded to %x, decoded to %v, which re-encodes to %x (panic=%v err=%v)", v, bs, got, bs2, pan, err), v)
			return
		}
	}
	h.Outcome("ok-" + v.K)
}

// ---- package leg: the value travels inside a parameter (or row) package together with its format

func fmtFor(v valgrid.Val) tdspkg.Fmt {
	f := tdspkg.Fmt{Name: "p", DT: v.DT, Status: 0x20}
	switch tdsval.LengthPrefix(v.DT) {
	case 1:
		f.MaxLen = 255
		if v.Len > 0 {
			f.MaxLen = v.Len
		}
	case 4:
		f.MaxLen = 2147483647
	}
	switch v.DT {
	case tdsval.DECN, tdsval.NUMN:
		f.Precision, f.Scale, f.MaxLen = uint8(v.P), uint8(v.Sc), 33
	case tdsval.BIGDATETIMEN, tdsval.BIGTIMEN:
		f.Scale, f.MaxLen = 6, 8
	case tdsval.INTN, tdsval.UINTN, tdsval.FLTN:
		f.MaxLen = 8
	}
	return f
}

func isTxtPtr(dt byte) bool {
	return dt == tdsval.TEXT || dt == tdsval.IMAGE || dt == tdsval.UNITEXT || dt == tdsval.XML
}

func runPkg(v valgrid.Val) {
	h.Eval(v.NonTrivial())
	sig := "C04|" + v.Name() + "|package-leg|"
	rf := fmtFor(v)
	pan, msg := hlib.Catch(func() {
		if isTxtPtr(v.DT) {
			// a client never sends these: decode direction from a reference-encoded row
			rowfmt := tdspkg.RowFmt{Wide: true, Fmts: []tdspkg.Fmt{rf}}
			row := tdspkg.Data{Row: true, Fmts: rowfmt.Fmts, Values: []interface{}{v.Ref()}}
			e := pkgcorpus.Entry{Enc: row.Encode(), Ctx: rowfmt.Encode()}
			p, err := pkgcorpus.Parse(e, e.Enc)
			if err != nil {
				h.Violate(sig+"decode-error|"+v.Cls, fmt.Sprintf("%s: reference-encoded row does not parse: %v", v, err), v)
				return
			}
			got := p.(*tds.RowPackage).DataFields[0].Value()
			want, _ := tdsval.Encode(v.DT, v.Ref(), 0)
			if b, ok := got.([]byte); !ok || string(b) != string(want) {
				h.Violate(sig+"decode-differs|"+v.Cls, fmt.Sprintf("%s: row delivers %T %x, the column holds %x", v, got, got, trunc(want)), v)
				return
			}
			h.Outcome("pkg-row-ok")
			return
		}
		// the format comes from the server (reference-encoded PARAMFMT), the client fills in the value and sends PARAMS
		pfEnc := tdspkg.ParamFmt{Wide: true, Fmts: []tdspkg.Fmt{rf}}.Encode()
		pfPkg, err := pkgcorpus.Parse(pkgcorpus.Entry{Enc: pfEnc}, pfEnc)
		if err != nil {
			h.Violate(sig+"format-error|"+v.Cls, fmt.Sprintf("%s: reference-encoded parameter format does not parse: %v", v, err), v)
			return
		}
		pf := pfPkg.(*tds.ParamFmtPackage)
		data, err := tds.LookupFieldData(pf.Fmts[0])
		if err != nil {
			h.Violate(sig+"format-error|"+v.Cls, fmt.Sprintf("%s: %v", v, err), v)
			return
		}
		data.SetValue(v.Lib())
		out := tds.NewParamsPackage(data)
		if err := out.LastPkg(pf); err != nil {
			h.Violate(sig+"encode-error|"+v.Cls, fmt.Sprintf("%s: LastPkg: %v", v, err), v)
			return
		}
		enc, err := hx.Encode(out)
		if err != nil {
			h.Violate(sig+"encode-error|"+v.Cls, fmt.Sprintf("%s: writing the parameter package: %v", v, err), v)
			return
		}
		back, err := pkgcorpus.Parse(pkgcorpus.Entry{Enc: enc, Ctx: pfEnc}, enc)
		if err != nil {
			h.Violate(sig+"decode-error|"+v.Cls, fmt.Sprintf("%s: the parameter package %x does not parse back: %v", v, trunc(enc), err), v)
			return
		}
		got := back.(*tds.ParamsPackage).DataFields[0].Value()
		if ok, why := valgrid.SameValue(v, got, valgrid.Tolerance(v)); !ok {
			h.Violate(sig+"roundtrip|"+v.Cls, fmt.Sprintf("%s: sent as %x, received wrongly: %s", v, trunc(enc), why), v)
			return
		}
		h.Outcome("pkg-params-ok")
	})
	if pan {
		h.Violate(sig+"panic|"+v.Cls, fmt.Sprintf("%s: %s", v, msg), v)
	}
}

func trunc(b []byte) []byte {
	if len(b) > 32 {
		return b[:32]
	}
	return b
}

func main() {
	h = hlib.Init("C04")
	var rc Case
	if h.ReplayCase(&rc) {
		if len(rc.Pair) == 2 {
			runHist(rc)
		} else {
			run(rc.Val)
			runPkg(rc.Val)
		}
		h.ReplayReport()
	}
	histLeg()
	valgrid.Enumerate(h, func(v valgrid.Val) {
		run(v)
		h.Sample(func() interface{} { return v })
	})
	// package leg on the thinned grid (small sections complete, every 211th (thorough 23rd) point of the large ones)
	valgrid.Thin = 211
	if h.Thorough {
		valgrid.Thin = 23
	}
	valgrid.Enumerate(h, func(v valgrid.Val) {
		if v.DT == tdsval.LONGCHAR || v.DT == tdsval.LONGBINARY || v.DT == tdsval.IMAGE || v.DT == tdsval.TEXT || v.DT == tdsval.UNITEXT || v.DT == tdsval.XML {
			if (v.K == "str" && len(v.S) > 70000) || (v.K == "bin" && len(v.X) > 70000) {
				return
			}
		}
		runPkg(v)
	})
	h.Done()
}
