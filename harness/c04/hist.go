package main

import (
	"encoding/binary"
	"fmt"
	"strings"

	"github.com/SAP/go-dblib/asetypes"
	"github.com/SAP/go-dblib/tds"
	"github.com/SAP/go-dblib/vrt"
	"verif/harness/pkgcorpus"
	"verif/harness/valgrid"
	"verif/hlib"
	"verif/ref/tdspkg"
	"verif/ref/tdsval"
)

// Case is a grid value, or a history of two values: Mode "seq" encodes the
// first, then the second, and only then decodes the first one's bytes (and
// checks that neither the bytes nor an already decoded value change under
// later calls); Mode "par" lets two goroutines encode and decode one value
// each under every interleaving. The asetypes package is instrumented, so a
// sync.Pool or lock inside the codec is a choice / scheduling point.
type Case struct {
	valgrid.Val
	Pair    []valgrid.Val `json:"pair,omitempty"`
	Mode    string        `json:"mode,omitempty"`
	Choices []int         `json:"choices,omitempty"`
}

func enc(v valgrid.Val) ([]byte, error) {
	return asetypes.DataType(v.DT).Bytes(binary.LittleEndian, v.Lib(), int64(v.Len))
}

func dec(v valgrid.Val, b []byte) (interface{}, error) {
	return asetypes.DataType(v.DT).GoValue(binary.LittleEndian, b)
}

func histBody(c Case, fail func(sig, det string)) func() {
	v1, v2 := c.Pair[0], c.Pair[1]
	same := func(v valgrid.Val, g interface{}, when string) bool {
		if ok, why := valgrid.SameValue(v, g, valgrid.Tolerance(v)); !ok {
			fail("C04|history|"+c.Mode+"|value-changed", fmt.Sprintf("%s, %s: %s", v, when, why))
			return false
		}
		return true
	}
	if c.Mode == "par" {
		return func() {
			for i, v := range c.Pair {
				i, v := i, v
				vrt.GoNamed(fmt.Sprintf("user%d", i), func() {
					b, err := enc(v)
					if err != nil {
						fail("C04|history|par|encode-error", fmt.Sprintf("%s: %v", v, err))
						return
					}
					vrt.PointOp("caller between Bytes and GoValue", 0) // a caller can be preempted between two library calls
					g, err := dec(v, b)
					if err != nil {
						fail("C04|history|par|decode-error", fmt.Sprintf("%s: own bytes %x: %v", v, trunc(b), err))
						return
					}
					same(v, g, "encoded and decoded by one goroutine while another goroutine encodes "+c.Pair[1-i].String())
				})
			}
		}
	}
	return func() {
		b1, err := enc(v1)
		if err != nil {
			fail("C04|history|seq|encode-error", fmt.Sprintf("%s: %v", v1, err))
			return
		}
		c1 := append([]byte{}, b1...)
		b2, err := enc(v2)
		if err != nil {
			fail("C04|history|seq|encode-error", fmt.Sprintf("%s: %v", v2, err))
			return
		}
		if string(b1) != string(c1) {
			fail("C04|history|seq|bytes-changed", fmt.Sprintf("the bytes %x produced for %s became %x when %s was encoded afterwards", trunc(c1), v1, trunc(b1), v2))
			return
		}
		g1, err := dec(v1, b1)
		if err != nil {
			fail("C04|history|seq|decode-error", fmt.Sprintf("%s: %x: %v", v1, trunc(b1), err))
			return
		}
		if !same(v1, g1, "decoded after "+v2.String()+" was encoded") {
			return
		}
		g2, err := dec(v2, b2)
		if err != nil || !same(v2, g2, "decoded after "+v1.String()+" was decoded") {
			return
		}
		if _, err := enc(v2); err != nil {
			return
		}
		if _, err := dec(v2, b2); err != nil {
			return
		}
		same(v1, g1, "held by the caller while "+v2.String()+" was encoded and decoded again")
	}
}

func runHist(c Case) {
	var viol, det string
	fail := func(s, d string) {
		if viol == "" {
			viol, det = s, d
		}
	}
	body := histBody(c, fail)
	st := vrt.Explore(vrt.ExploreCfg{Base: vrt.Config{Preempt: true}, Bound: -1, Deadline: h.Deadline(),
		Check: func(x *vrt.Exec) (string, string) {
			s, d := viol, det
			viol, det = "", ""
			if x.Failure != nil {
				return "C04|history|" + c.Mode + "|" + x.Failure.Kind, x.Failure.String()
			}
			return s, d
		},
		OnViolation: func(sig, d string, choices []int, x *vrt.Exec) {
			cc := c
			cc.Choices = choices
			h.Violate(sig, fmt.Sprintf("%s [schedule %v]", d, choices), cc)
		}}, body)
	if st.Diverged != "" {
		h.Outcome("history-hidden-state") // state kept across executions: the default execution above was still checked
	}
	h.EvalN(st.Execs, st.Execs)
	h.Section("history-"+c.Mode, st.Execs)
}

func histValues() []valgrid.Val {
	d := tdsval.DaysFromCivil(2021, 3, 4)
	return []valgrid.Val{
		{DT: tdsval.INT4, K: "i32", I: 0x11111111, Cls: "hist"}, {DT: tdsval.INT4, K: "i32", I: 0x04030201, Cls: "hist"},
		{DT: tdsval.INT8, K: "i64", I: 0x2222222222222222, Cls: "hist"}, {DT: tdsval.INT2, K: "i16", I: 0x3333, Cls: "hist"},
		{DT: tdsval.INT1, K: "u8", U: 0x44, Cls: "hist"}, {DT: tdsval.INTN, Len: 4, K: "i32", I: -5, Cls: "hist"},
		{DT: tdsval.FLT8, K: "f64", U: 0x400921FB54442D18, Cls: "hist"}, {DT: tdsval.FLT4, K: "f32", U: 0x40490FDB, Cls: "hist"},
		{DT: tdsval.BIT, K: "bool", I: 1, Cls: "hist"},
		{DT: tdsval.VARCHAR, K: "str", S: "first value", Cls: "hist"}, {DT: tdsval.CHAR, K: "str", S: "second", Cls: "hist"},
		{DT: tdsval.LONGCHAR, K: "str", S: "a rather longer character value 0123456789", Cls: "hist"},
		{DT: tdsval.VARBINARY, K: "bin", X: []byte{0xca, 0xfe, 0xba, 0xbe}, Cls: "hist"}, {DT: tdsval.BINARY, K: "bin", X: []byte{1, 2, 3, 4, 5, 6, 7, 8}, Cls: "hist"},
		{DT: tdsval.LONGBINARY, K: "bin", X: []byte{9, 8, 7, 6, 5, 4, 3, 2, 1, 0, 9, 8}, Cls: "hist"},
		{DT: tdsval.MONEY, Len: 8, K: "dec", S: "123456789", P: 20, Sc: 4, Cls: "hist"}, {DT: tdsval.DECN, K: "dec", S: "-987654321", P: 12, Sc: 3, Cls: "hist"},
		{DT: tdsval.NUMN, K: "dec", S: "31415926535", P: 38, Sc: 10, Cls: "hist"},
		{DT: tdsval.DATETIME, Len: 8, K: "time", Day: d, Ns: tdsval.TickNanos(603), Cls: "hist"}, {DT: tdsval.DATE, Len: 4, K: "time", Day: d + 1, Cls: "hist"},
		{DT: tdsval.BIGDATETIMEN, Len: 8, K: "time", Day: d, Ns: 3723004005000, Cls: "hist"}, {DT: tdsval.TIME, Len: 4, K: "time", Day: tdsval.DaysFromCivil(1, 1, 1), Ns: tdsval.TickNanos(77777), Cls: "hist"},
		{DT: tdsval.UNITEXT, K: "str", S: "unitext ü日", Cls: "hist"},
	}
}

// histLeg: every ordered pair of the history values, sequentially and concurrently.
func histLeg() {
	vals := histValues()
	// a value that does not survive on its own is reported as the grid point it is, and left out of
	// the histories (a history failure would be misattributed)
	var sound []valgrid.Val
	for _, v := range vals {
		b, err := enc(v)
		var g interface{}
		if err == nil {
			g, err = dec(v, b)
		}
		if ok, _ := valgrid.SameValue(v, g, valgrid.Tolerance(v)); err != nil || !ok {
			if h.Mine(0) {
				run(v)
			}
			continue
		}
		sound = append(sound, v)
	}
	vals = sound
	if h.Mine(1) {
		for _, v := range vals {
			runRows(v)
		}
	}
	idx := 0
	for _, a := range vals {
		for _, b := range vals {
			idx++
			if !h.Mine(idx) {
				continue
			}
			for _, mode := range []string{"seq", "par"} {
				runHist(Case{Pair: []valgrid.Val{a, b}, Mode: mode})
			}
		}
	}
}

// other returns a second, different value of the same type and width.
func other(v valgrid.Val) valgrid.Val {
	o := v
	switch v.K {
	case "u8", "u16", "u32", "u64":
		o.U = v.U ^ 0x15
	case "i16", "i32", "i64":
		o.I = v.I ^ 0x15
	case "f32", "f64":
		o.U = v.U ^ 0x100
	case "bool":
		o.I = 1 - v.I
	case "str":
		o.S = "Z" + v.S
	case "bin":
		o.X = append([]byte{0x5a}, v.X...)
		if v.DT == tdsval.BINARY {
			o.X = append([]byte{}, v.X...)
			o.X[0] ^= 0xff
		}
	case "time":
		if v.DT == tdsval.TIME || v.DT == tdsval.TIMEN || v.DT == tdsval.BIGTIMEN {
			o.Ns = v.Ns + 3600e9 // a time of day: one hour later
		} else {
			o.Day = v.Day + 1
		}
	case "dec":
		o.S = "7" + strings.TrimPrefix(v.S, "-")
	}
	return o
}

// runRows: the row-package leg with SEVERAL rows of one result set. Row k+1 is
// decoded with row k as its context (as the channel does it); what row k
// delivered must still be there afterwards.
func runRows(v valgrid.Val) {
	if isTxtPtr(v.DT) {
		return
	}
	w := other(v)
	rf := fmtFor(v)
	rf.Status = 0x20
	sig := "C04|" + v.Name() + "|row-leg|"
	pan, msg := hlib.Catch(func() {
		rowfmt := tdspkg.RowFmt{Wide: true, Fmts: []tdspkg.Fmt{rf}}
		var prev tds.Package
		var err error
		prev, err = pkgcorpus.ParseNext(rowfmt.Encode(), nil)
		if err != nil {
			h.Violate(sig+"format-error|"+v.Cls, fmt.Sprintf("%s: reference-encoded row format does not parse: %v", v, err), Case{Val: v})
			return
		}
		vals := []valgrid.Val{v, w, v}
		var rows []*tds.RowPackage
		for i, x := range vals {
			row := tdspkg.Data{Row: true, Fmts: rowfmt.Fmts, Values: []interface{}{x.Ref()}}
			p, err := pkgcorpus.ParseNext(row.Encode(), prev)
			if err != nil {
				h.Violate(sig+"decode-error|"+v.Cls, fmt.Sprintf("%s: row %d of 3 (reference-encoded) does not parse: %v", x, i, err), Case{Val: v})
				return
			}
			rows = append(rows, p.(*tds.RowPackage))
			prev = p
		}
		for i, x := range vals {
			got := rows[i].DataFields[0].Value()
			if ok, why := valgrid.SameValue(x, got, valgrid.Tolerance(x)); !ok {
				h.Violate(sig+"earlier-row-changed|"+v.Cls, fmt.Sprintf("rows %s / %s / %s of one result set: after all three were decoded row %d holds: %s", vals[0], vals[1], vals[2], i, why), Case{Val: v})
				return
			}
		}
		h.Outcome("rows-ok")
	})
	if pan {
		h.Violate(sig+"panic|"+v.Cls, fmt.Sprintf("%s: %s", v, msg), Case{Val: v})
	}
	h.Eval(true)
	h.Section("row-leg-three-rows", 1)
}
