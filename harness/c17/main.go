// C17 — connection descriptions round-trip and never crash the parser.
// Bounded-exhaustive enumeration on the real dsn package.
package main

import (
	"fmt"
	"math"
	"reflect"
	"strings"

	"github.com/SAP/go-dblib/dsn"
	"github.com/SAP/go-dblib/tds"
	"verif/hlib"
)

// T is a "tds.Info-like" struct: embedded dsn.Info, aliases, int, bool and a
// nested (non-embedded) structure.
type T struct {
	dsn.Info
	A   string `json:"a" multiref:"aa,aaa"`
	N   int    `json:"n" multiref:"num"`
	B   bool   `json:"b"`
	Sub struct {
		X string `json:"x" multiref:"xx"`
	}
}

type Case struct {
	Kind   string            `json:"kind"` // total | rt-uri | rt-simple | override-simple | override-uri | unknown
	Target string            `json:"target"`
	Input  string            `json:"input,omitempty"`
	Fields map[string]string `json:"fields,omitempty"` // json key -> value text
	Keys   []string          `json:"keys,omitempty"`
}

var h *hlib.H

// failingSingles remembers (target|form|key|value) of single-field round trips
// that already fail, so that a pair containing one is not reported under a
// second signature.
var failingSingles = map[string]bool{}

func newTarget(name string) interface{} {
	switch name {
	case "dsn.Info":
		return &dsn.Info{}
	case "tds.Info":
		return &tds.Info{}
	default:
		return &T{}
	}
}

// setField sets the field with json key k of target to the value text.
func setField(target interface{}, k, v string) {
	f, ok := dsn.TagToField(target, dsn.OnlyJSON)[k]
	if !ok {
		h.Fatal("no field %q in %T", k, target)
	}
	switch f.Kind() {
	case reflect.String:
		f.SetString(v)
	case reflect.Bool:
		f.SetBool(v == "true")
	case reflect.Int:
		var n int64
		fmt.Sscan(v, &n)
		f.SetInt(n)
	}
}

func classify(s string) string {
	switch {
	case s == "":
		return "empty"
	case strings.TrimSpace(s) == "":
		return "only-spaces"
	case strings.HasPrefix(s, " "):
		return "leading-space"
	case strings.HasSuffix(s, " "):
		return "trailing-space"
	case strings.Contains(s, "KEY"):
		return "contains-KEY"
	case strings.Contains(s, "  "):
		return "double-space"
	case strings.ContainsAny(s, "\u00a0\u200b\ufeff"):
		return "non-printable-unicode"
	case strings.ContainsAny(s, "'\"\\"):
		return "quote-or-backslash"
	case strings.IndexFunc(s, func(r rune) bool { return r < 0x20 || r == 0x7f }) >= 0:
		return "control"
	case strings.IndexFunc(s, func(r rune) bool { return r > 0x7f }) >= 0:
		return "unicode"
	case strings.Contains(s, "="):
		return "equals-sign"
	case strings.ContainsAny(s, "%&?#/@:+;"):
		return "uri-meta"
	}
	return "plain"
}

var failedNow bool

func run(c Case) {
	failedNow = false
	switch c.Kind {
	case "total":
		for _, fn := range []struct {
			name string
			f    func(string, interface{}) error
		}{{"Parse", dsn.Parse}, {"ParseURI", dsn.ParseURI}, {"ParseSimple", dsn.ParseSimple}} {
			tg := newTarget(c.Target)
			var err error
			pan, msg := hlib.Catch(func() { err = fn.f(c.Input, tg) })
			if pan {
				cls := "other"
				switch {
				case strings.Contains(msg, "index out of range"):
					cls = "unterminated-quote"
				case strings.Contains(msg, "slice bounds out of range"):
					cls = "lone-quote"
				}
				h.Violate("C17|"+fn.name+"|panic|"+cls, fmt.Sprintf("%s(%q, %s) panicked: %s", fn.name, c.Input, c.Target, msg), c)
				h.Outcome("panic")
			} else if err != nil {
				h.Outcome("error")
			} else {
				h.Outcome("ok")
			}
		}
		h.Eval(strings.ContainsAny(c.Input, "'\"="))
	case "rt-uri", "rt-simple":
		src := newTarget(c.Target)
		worst := "plain"
		var classes []string
		for k, v := range c.Fields {
			setField(src, k, v)
			if len(c.Fields) > 1 && failingSingles[c.Target+"|"+c.Kind+"|"+k+"|"+v] {
				h.Eval(true)
				h.Outcome("pair-with-failing-single")
				return
			}
			if cl := classify(v); cl != "plain" && cl != "empty" {
				classes = append(classes, cl)
			}
		}
		if len(classes) > 0 {
			sortStrings(classes)
			worst = strings.Join(classes, "+")
		}
		nv := h.NViolations()
		defer func() {
			if len(c.Fields) == 1 && h.NViolations() > nv || len(c.Fields) == 1 && failedNow {
				for k, v := range c.Fields {
					failingSingles[c.Target+"|"+c.Kind+"|"+k+"|"+v] = true
				}
			}
		}()
		h.Eval(len(c.Fields) > 0)
		var text string
		var err error
		dst := newTarget(c.Target)
		form := "uri"
		pan, msg := hlib.Catch(func() {
			if c.Kind == "rt-uri" {
				text, err = dsn.FormatURI(src)
				if err == nil {
					err = dsn.ParseURI(text, dst)
				}
			} else {
				form = "simple"
				text = dsn.FormatSimple(src)
				err = dsn.ParseSimple(text, dst)
			}
		})
		failedNow = pan || err != nil || !reflect.DeepEqual(src, dst)
		switch {
		case pan:
			h.Violate("C17|roundtrip|"+form+"|panic|"+worst, fmt.Sprintf("%s %v: text %q: panic %s", c.Target, c.Fields, text, msg), c)
			h.Outcome("panic")
		case err != nil:
			h.Violate("C17|roundtrip|"+form+"|error|"+worst, fmt.Sprintf("%s %v: text %q does not parse back: %v", c.Target, c.Fields, text, err), c)
			h.Outcome("error")
		case !reflect.DeepEqual(src, dst):
			h.Violate("C17|roundtrip|"+form+"|changed|"+worst, fmt.Sprintf("%s %v: text %q parsed back to %+v, want %+v", c.Target, c.Fields, text, dst, src), c)
			h.Outcome("changed")
		default:
			h.Outcome("roundtrip-ok")
		}
	case "override-simple", "override-uri":
		// Keys[0], Keys[1] name the same field (json key Keys[2]); later must win.
		dst := newTarget(c.Target)
		var err error
		var text string
		if c.Kind == "override-simple" && len(c.Keys) == 4 {
			// three occurrences: Keys[0..2] name the field Keys[3]
			text = fmt.Sprintf("%s=first %s=middle %s=second", c.Keys[0], c.Keys[1], c.Keys[2])
		} else if c.Kind == "override-simple" {
			text = fmt.Sprintf("%s=first %s=second", c.Keys[0], c.Keys[1])
		} else {
			text = fmt.Sprintf("ase://u:p@h:1/?%s=first&%s=middle&%s=second", c.Keys[0], c.Keys[0], c.Keys[1])
		}
		h.Eval(c.Keys[0] != c.Keys[1])
		pan, msg := hlib.Catch(func() {
			if c.Kind == "override-simple" {
				err = dsn.ParseSimple(text, dst)
			} else {
				err = dsn.ParseURI(text, dst)
			}
		})
		if pan || err != nil {
			h.Violate("C17|"+c.Kind+"|fails", fmt.Sprintf("%s: %q: panic=%v %s err=%v", c.Target, text, pan, msg, err), c)
			return
		}
		jk := c.Keys[len(c.Keys)-1]
		got := dsn.TagToField(dst, dsn.OnlyJSON)[jk].String()
		if got != "second" {
			h.Violate("C17|"+c.Kind+"|earlier-wins", fmt.Sprintf("%s: %q: field %s = %q, the later occurrence must win", c.Target, text, jk, got), c)
		}
		h.Outcome("override-ok")
	case "unknown":
		dst := newTarget(c.Target)
		var err error
		h.Eval(true)
		pan, msg := hlib.Catch(func() {
			if strings.Contains(c.Input, "://") {
				err = dsn.ParseURI(c.Input, dst)
			} else {
				err = dsn.ParseSimple(c.Input, dst)
			}
		})
		if pan {
			h.Violate("C17|unknown-key|panic", fmt.Sprintf("%s: %q panicked: %s", c.Target, c.Input, msg), c)
		} else if err == nil {
			h.Violate("C17|unknown-key|accepted", fmt.Sprintf("%s: %q has a key matching no field but was accepted: %+v", c.Target, c.Input, dst), c)
		}
		h.Outcome("unknown-rejected")
	}
}

var alphabet = []string{"a", "=", " ", "'", "\"", "\\", ":", "/", "?", "&", "%", "@", "#"}

func enumStrings(maxLen int, shardIdx *int, f func(s string)) {
	// level-2 prefixes are the shard unit
	var rec func(cur []byte, depth int)
	rec = func(cur []byte, depth int) {
		f(string(cur))
		if depth == maxLen {
			return
		}
		for _, a := range alphabet {
			rec(append(cur, a...), depth+1)
		}
	}
	f("")
	for _, a := range alphabet {
		f(a)
		for _, b := range alphabet {
			*shardIdx++
			if !h.Mine(*shardIdx) {
				continue
			}
			rec([]byte(a+b), 2)
		}
	}
}

func stringFields(target string) (strs, ints, bools []string, uriAny []string) {
	for k, f := range dsn.TagToField(newTarget(target), dsn.OnlyJSON) {
		switch f.Kind() {
		case reflect.String:
			strs = append(strs, k)
		case reflect.Int:
			ints = append(ints, k)
		case reflect.Bool:
			bools = append(bools, k)
		}
	}
	sortStrings(strs)
	sortStrings(ints)
	sortStrings(bools)
	return
}

func sortStrings(s []string) {
	for i := range s {
		for j := i + 1; j < len(s); j++ {
			if s[j] < s[i] {
				s[i], s[j] = s[j], s[i]
			}
		}
	}
}

func main() {
	h = hlib.Init("C17")
	var rc Case
	if h.ReplayCase(&rc) {
		run(rc)
		h.ReplayReport()
	}
	idx := 0
	maxLen := 6
	if h.Thorough {
		maxLen = 7
	}
	for _, tg := range []string{"T", "dsn.Info"} {
		ml := maxLen
		if tg == "dsn.Info" {
			ml = maxLen - 1 // every key is unknown there: shallower
		}
		enumStrings(ml, &idx, func(s string) {
			c := Case{Kind: "total", Target: tg, Input: s}
			run(c)
			h.Sample(func() interface{} { return c })
			h.Section("totality", 1)
		})
	}
	// a few longer hand-made shapes around quotes (still exhaustive over the listed set)
	for _, s := range []string{`a="`, `a='`, `a="a`, `a='a b`, `a=" `, `a=' '`, `a=" a"`, `a="a "`, `a="" a='`, `a=a a="`, `host="h" a="x y" n=1`, `a="a"a`, `="`, `a=="`, `a="=`} {
		for _, tg := range []string{"T", "dsn.Info", "tds.Info"} {
			if h.Mine(0) {
				run(Case{Kind: "total", Target: tg, Input: s})
			}
		}
	}

	// --- round trips
	simpleVals := []string{"", "a", "abc", " ", "  ", " a", "a ", " a ", "a b", "a  b", " a  b ", "=", "a=b", "==", "=a", "a=", "é", "日本語", "😀", "𐍈", "a\u00a0b", "KEY", "monKEYs",
		"%", "%41", "a+b", "a&b=c", "a/b?c#d", "@:", "://", "a;b", strings.Repeat("x", 300)}
	uriVals := append(append([]string{}, simpleVals...), "\"", "'", "\\", "a\"b", "it's", "\n", "\t", "\x00", "a\\b", "\u200b", "\ufeff", "\U0010ffff")
	intVals := []string{"-1", "0", "1", "2147483648", "-2147483648", fmt.Sprint(int64(math.MaxInt64)), fmt.Sprint(int64(math.MinInt64))}
	boolVals := []string{"true", "false"}
	for _, tg := range []string{"dsn.Info", "tds.Info", "T"} {
		strs, ints, bools, _ := stringFields(tg)
		type fv struct{ k, v string }
		mk := func(form string, vals []string) []fv {
			var out []fv
			for _, k := range strs {
				if form == "uri" && (k == "host" || k == "port") {
					// the statement quantifies over user, password, database and additional properties
					for _, v := range []string{"", "h", "db.example.org", "4901"} {
						if k == "port" && (v == "h" || v == "db.example.org") {
							continue
						}
						out = append(out, fv{k, v})
					}
					continue
				}
				for _, v := range vals {
					out = append(out, fv{k, v})
				}
			}
			for _, k := range ints {
				for _, v := range intVals {
					out = append(out, fv{k, v})
				}
			}
			for _, k := range bools {
				for _, v := range boolVals {
					out = append(out, fv{k, v})
				}
			}
			return out
		}
		for _, form := range []string{"uri", "simple"} {
			vals := uriVals
			if form == "simple" {
				vals = simpleVals
			}
			all := mk(form, vals)
			run(Case{Kind: "rt-" + form, Target: tg, Fields: map[string]string{}})
			h.Quiet = h.R.Shard != 0
			for _, a := range all { // singles: run by every shard (cheap), needed for attribution; counted once
				c := Case{Kind: "rt-" + form, Target: tg, Fields: map[string]string{a.k: a.v}}
				run(c)
				h.Sample(func() interface{} { return c })
				h.Section("roundtrip-1-field", 1)
			}
			h.Quiet = false
			for i, a := range all {
				idx++
				if !h.Mine(idx) {
					continue
				}
				for _, b := range all[i+1:] {
					if b.k == a.k {
						continue
					}
					run(Case{Kind: "rt-" + form, Target: tg, Fields: map[string]string{a.k: a.v, b.k: b.v}})
					h.Section("roundtrip-2-fields", 1)
				}
			}
		}
		// --- overrides: every ordered pair of names of one field
		probe := newTarget(tg)
		multi := dsn.TagToField(probe, dsn.Multiref)
		only := dsn.TagToField(probe, dsn.OnlyJSON)
		nOverride := 0
		for jk, jf := range only {
			if jf.Kind() != reflect.String {
				continue
			}
			var names []string
			for n, f := range multi {
				if f.Kind() == reflect.String && f.Addr().Pointer() == jf.Addr().Pointer() {
					names = append(names, n)
				}
			}
			sortStrings(names)
			for _, n1 := range names {
				for _, n2 := range names {
					if h.Mine(0) {
						run(Case{Kind: "override-simple", Target: tg, Keys: []string{n1, n2, jk}})
						if n1 == n2 { // URI form: only the repeated key is specified
							run(Case{Kind: "override-uri", Target: tg, Keys: []string{n1, n2, jk}})
						}
						h.Section("override", 1)
						nOverride++
						// three occurrences (K A K, A K K, K K A, ...): still the last one wins
						for _, n3 := range names {
							run(Case{Kind: "override-simple", Target: tg, Keys: []string{n1, n2, n3, jk}})
							h.Section("override-3", 1)
						}
					}
				}
			}
		}
		if nOverride == 0 && h.Mine(0) {
			h.Fatal("no override case generated for %s: alias discovery is broken", tg)
		}
		// --- unknown keys
		for _, k := range []string{"nosuchkey", "Host", "HOST", "hostname2", "a.b", "-", "x y"} {
			if _, ok := multi[k]; ok || !h.Mine(0) {
				continue
			}
			run(Case{Kind: "unknown", Target: tg, Input: k + "=v"})
			run(Case{Kind: "unknown", Target: tg, Input: "host=h " + k + "=v"})
			if !strings.Contains(k, " ") {
				run(Case{Kind: "unknown", Target: tg, Input: "ase://u:p@h:1/?" + k + "=v"})
				run(Case{Kind: "unknown", Target: tg, Input: "ase://u:p@h:1/?database=d&" + k + "=v"})
			}
			h.Section("unknown-key", 1)
		}
	}
	h.Done()
}
