// Package pkgcorpus builds the corpus of valid package encodings shared by
// C06, C07 and C10: reference-encoded server-side packages (ref/tdspkg) and
// encodings the library produced itself for the packages it can write.
package pkgcorpus

import (
	"fmt"
	"strings"

	"github.com/SAP/go-dblib/asetypes"
	"github.com/SAP/go-dblib/tds"
	"verif/harness/hx"
	"verif/harness/rx"
	"verif/ref/tdspkg"
	"verif/ref/tdsval"
)

// Entry is one valid encoding.
type Entry struct {
	Name   string
	Enc    []byte      // complete encoding including the token byte
	Ctx    []byte      // encoding of the format package a ROW / PARAMS / ORDERBY needs before it (or nil)
	Origin string      // "ref" (reference encoder) or "lib" (written by the library itself)
	Ref    tdspkg.Pkg  // reference package (Origin "ref")
	Lib    tds.Package // library package the encoding was written from (Origin "lib")
}

// Parse decodes e with the library the way the channel does it: look the
// token up, hand over the context, read from a channel holding data.
func Parse(e Entry, data []byte) (tds.Package, error) {
	var ctx tds.Package
	if e.Ctx != nil {
		c, err := parseOne(e.Ctx, nil)
		if err != nil {
			return nil, fmt.Errorf("context package: %w", err)
		}
		ctx = c
	}
	return parseOne(data, ctx)
}

// ParseNext decodes one package the way the channel does it, with the package
// decoded before it (a format, or the previous row) as its context.
func ParseNext(data []byte, prev tds.Package) (tds.Package, error) { return parseOne(data, prev) }

func parseOne(data []byte, ctx tds.Package) (tds.Package, error) {
	if len(data) == 0 {
		return nil, tds.ErrNotEnoughBytes
	}
	pkg, err := tds.LookupPackage(tds.Token(data[0]))
	if err != nil {
		return nil, err
	}
	if acc, ok := pkg.(tds.LastPkgAcceptor); ok {
		if err := acc.LastPkg(ctx); err != nil {
			return nil, fmt.Errorf("LastPkg: %w", err)
		}
	}
	f := &hx.Flat{Buf: data[1:]}
	if err := pkg.ReadFrom(f); err != nil {
		return pkg, err
	}
	if f.Pos != len(f.Buf) {
		return pkg, fmt.Errorf("pkgcorpus: %d of %d bytes consumed", f.Pos, len(f.Buf))
	}
	return pkg, nil
}

func str(n int) string { return strings.Repeat("abcdefghijklmnopqrstuvwxyz", n/26+1)[:n] }

// Build returns the corpus. level 0 = quick, 1 = thorough (more lengths).
func Build(level int) []Entry {
	var out []Entry
	seen := map[string]bool{}
	addRef := func(name string, p tdspkg.Pkg, ctx tdspkg.Pkg) {
		enc := p.Encode()
		k := string(enc)
		if ctx != nil {
			k += "|" + string(ctx.Encode())
		}
		if seen[k] {
			return
		}
		seen[k] = true
		e := Entry{Name: name, Enc: enc, Origin: "ref", Ref: p}
		if ctx != nil {
			e.Ctx = ctx.Encode()
		}
		out = append(out, e)
	}
	// every package of every corpus response, with its format context
	for _, r := range rx.Corpus() {
		var ctx tdspkg.Pkg
		for i, p := range r.Pkgs {
			switch p.(type) {
			case tdspkg.Data, tdspkg.OrderBy:
				addRef(fmt.Sprintf("%s#%d", r.Name, i), p, ctx)
			default:
				addRef(fmt.Sprintf("%s#%d", r.Name, i), p, nil)
			}
			switch p.(type) {
			case tdspkg.RowFmt, tdspkg.ParamFmt:
				ctx = p
			}
		}
	}
	// string lengths of 1-byte and 2-byte prefixed fields
	lens := []int{0, 1, 2, 30, 127, 128, 254, 255}
	if level > 0 {
		lens = nil
		for n := 0; n <= 255; n++ {
			lens = append(lens, n)
		}
	}
	for _, n := range lens {
		addRef(fmt.Sprintf("eed-server%d", n), tdspkg.EED{MsgNumber: 1, SQLState: []byte("ZZZZZ"), Msg: "m", Server: str(n), Proc: "p"}, nil)
		addRef(fmt.Sprintf("eed-proc%d", n), tdspkg.EED{MsgNumber: 1, SQLState: []byte(str(n % 9)), Msg: "m", Proc: str(n)}, nil)
		addRef(fmt.Sprintf("eed-msg%d", n), tdspkg.EED{MsgNumber: 1, Status: 2, Msg: str(n * 3), Server: "s"}, nil)
		addRef(fmt.Sprintf("error%d", n), tdspkg.Error{Number: 7, State: 1, Class: 2, Msg: str(n), Server: str(n / 2), Proc: str(n / 3), Line: 9}, nil)
		addRef(fmt.Sprintf("loginack%d", n), tdspkg.LoginAck{Status: 5, Version: [4]byte{5, 0, 0, 0}, Program: str(n), ProgVersion: [4]byte{1, 2, 3, 4}}, nil)
		addRef(fmt.Sprintf("env%d", n), tdspkg.EnvChange{Members: []tdspkg.EnvMember{{Type: 1, New: str(n), Old: str(255 - n)}}}, nil)
		f := tdspkg.Fmt{Name: str(n), DT: tdsval.VARCHAR, MaxLen: 255, Locale: str(n / 4), Label: str(n / 2), Catalogue: "c", Schema: str(n / 3), Table: "t"}
		addRef(fmt.Sprintf("rowfmt2-name%d", n), tdspkg.RowFmt{Wide: true, Fmts: []tdspkg.Fmt{f}}, nil)
		f.Label, f.Catalogue, f.Schema, f.Table = "", "", "", ""
		addRef(fmt.Sprintf("paramfmt-name%d", n), tdspkg.ParamFmt{Fmts: []tdspkg.Fmt{f}}, nil)
		addRef(fmt.Sprintf("paramfmt2-name%d", n), tdspkg.ParamFmt{Wide: true, Fmts: []tdspkg.Fmt{f}}, nil)
		addRef(fmt.Sprintf("rowfmt-narrow-name%d", n), tdspkg.RowFmt{Fmts: []tdspkg.Fmt{f}}, nil)
		if n > 0 {
			vf := []tdspkg.Fmt{{Name: "v", DT: tdsval.VARCHAR, MaxLen: 255, Status: 0x8}, {Name: "b", DT: tdsval.VARBINARY, MaxLen: 255}}
			addRef(fmt.Sprintf("row-varlen%d", n), tdspkg.Data{Row: true, Fmts: vf, Values: []interface{}{str(n), []byte(str(256 - n))}}, tdspkg.RowFmt{Wide: true, Fmts: vf})
		}
	}
	for _, n := range []int{0, 1, 255, 256, 65534, 65535} {
		addRef(fmt.Sprintf("eed-longmsg%d", n), tdspkg.EED{MsgNumber: 2, Msg: str(n % 65000)}, nil)
		lf := []tdspkg.Fmt{{Name: "l", DT: tdsval.LONGCHAR, MaxLen: 1 << 20}, {Name: "t", DT: tdsval.TEXT, MaxLen: 1 << 20, Object: str(n % 300)}}
		if n > 0 {
			addRef(fmt.Sprintf("row-long%d", n), tdspkg.Data{Row: true, Fmts: lf, Values: []interface{}{str(n), str(n)}}, tdspkg.RowFmt{Wide: true, Fmts: lf})
		}
		addRef(fmt.Sprintf("rowfmt2-object%d", n), tdspkg.RowFmt{Wide: true, Fmts: lf}, nil)
	}
	// capability masks: each single bit of each type, none, all, subsets of an 8-bit window
	for t := byte(1); t <= 3; t++ {
		for bit := 0; bit < 112; bit++ {
			m := make([]byte, 14)
			m[13-bit/8] = 1 << uint(bit%8)
			addRef(fmt.Sprintf("cap-type%d-bit%d", t, bit), tdspkg.Capability{Types: []byte{t}, Masks: [][]byte{m}}, nil)
		}
	}
	for w := 0; w < 256; w++ {
		addRef(fmt.Sprintf("cap-window%d", w), tdspkg.Capability{Types: []byte{1, 2}, Masks: [][]byte{{byte(w), 0xff}, {0, byte(w)}}}, nil)
	}
	addRef("cap-empty", tdspkg.Capability{}, nil)
	addRef("cap-zero-length-mask", tdspkg.Capability{Types: []byte{1}, Masks: [][]byte{{}}}, nil)
	for st := 0; st < 16; st++ {
		addRef(fmt.Sprintf("done-status%d", st), tdspkg.Done{Token: tdspkg.TokDone, Status: 1 << uint(st), Tran: uint16(st % 5), Count: int32(st) - 3}, nil)
		addRef(fmt.Sprintf("doneproc-status%d", st), tdspkg.Done{Token: tdspkg.TokDoneProc, Status: 1 << uint(st)}, nil)
		addRef(fmt.Sprintf("doneinproc-status%d", st), tdspkg.Done{Token: tdspkg.TokDoneInProc, Status: 1 << uint(st)}, nil)
	}
	for _, n := range []int{0, 1, 2, 255, 256} {
		cols := make([]int, n)
		for i := range cols {
			cols[i] = i % 200
		}
		addRef(fmt.Sprintf("orderby%d", n), tdspkg.OrderBy{Cols: cols}, tdspkg.RowFmt{Wide: true, Fmts: []tdspkg.Fmt{{Name: "x", DT: tdsval.INT4}}})
		addRef(fmt.Sprintf("orderby2-%d", n), tdspkg.OrderBy{Wide: true, Cols: cols}, tdspkg.RowFmt{Wide: true, Fmts: []tdspkg.Fmt{{Name: "x", DT: tdsval.INT4}}})
	}
	// format status bits x data types
	fs, vs, ls := rx.AllTypes(true)
	for i, f := range fs {
		for _, st := range []uint32{0, 0x8, 0x20, 0x28, 0x10, 0x01} {
			g := f
			g.Status = st
			addRef(fmt.Sprintf("rowfmt2-%s-st%x", tdsval.Names[f.DT], st), tdspkg.RowFmt{Wide: true, Fmts: []tdspkg.Fmt{g}}, nil)
			addRef(fmt.Sprintf("row-%s-st%x", tdsval.Names[f.DT], st), tdspkg.Data{Row: true, Fmts: []tdspkg.Fmt{g}, Values: []interface{}{vs[i]}, Lens: []int{ls[i]}}, tdspkg.RowFmt{Wide: true, Fmts: []tdspkg.Fmt{g}})
		}
	}
	// every single status bit of the 4-byte status of the wide formats (the narrow ones carry one byte)
	for bit := uint(0); bit < 32; bit++ {
		for _, f := range []tdspkg.Fmt{{Name: "i", DT: tdsval.INT4}, {Name: "v", DT: tdsval.VARCHAR, MaxLen: 255}} {
			f.Status = 1 << bit
			addRef(fmt.Sprintf("rowfmt2-%s-bit%d", tdsval.Names[f.DT], bit), tdspkg.RowFmt{Wide: true, Fmts: []tdspkg.Fmt{f}}, nil)
			addRef(fmt.Sprintf("paramfmt2-%s-bit%d", tdsval.Names[f.DT], bit), tdspkg.ParamFmt{Wide: true, Fmts: []tdspkg.Fmt{f, f}}, nil)
		}
	}
	// ---- BLOB columns. The library's BLOB format reader counts its bytes in its own way (known
	// finding, see C06), so no protocol-conforming ROWFMT with a BLOB column parses. These entries are
	// crafted to the dialect the library accepts, so that the BLOB data reader is reachable for the
	// truncation (C07) and malformed-input (C10) checks; C06 skips them (Origin "crafted").
	{
		blobFmt := func(status byte, blobType byte) []byte {
			body := []byte{1, 0, 0, 0, 0, 0, 1, 'b', status, 0, 0, 0, 9, 0, 0, 0, 0x24, 0, blobType, 0}
			enc := []byte{0x61, byte(len(body) - 2), 0, 0, 0}
			return append(enc, body...)
		}
		chunk := func(n int, last bool, fill byte) []byte {
			l := uint32(n)
			if last {
				l |= 0x80000000
			}
			b := []byte{byte(l), byte(l >> 8), byte(l >> 16), byte(l >> 24)}
			for i := 0; i < n; i++ {
				b = append(b, fill+byte(i))
			}
			return b
		}
		for _, bt := range []byte{3, 4, 5} {
			for _, st := range []byte{0, 8} {
				ctx := blobFmt(st, bt)
				pre := []byte{0xD1}
				if st == 8 {
					pre = append(pre, 0)
				}
				pre = append(pre, 0) // serialization
				rows := map[string][]byte{
					"one-chunk":    hx.Concat(pre, chunk(5, false, 'a'), chunk(0, true, 0)),
					"three-chunks": hx.Concat(pre, chunk(40, false, 'a'), chunk(40, false, 'k'), chunk(40, false, 'u'), chunk(0, true, 0)),
					"empty":        hx.Concat(pre, chunk(0, true, 0)),
					"zero-chunk":   hx.Concat(pre, chunk(0, false, 0), chunk(3, false, 'x'), chunk(0, true, 0)),
				}
				// deterministic order: every shard must see the same corpus sequence
				for _, name := range []string{"empty", "one-chunk", "three-chunks", "zero-chunk"} {
					row := rows[name]
					e := Entry{Name: fmt.Sprintf("blob-t%d-st%d-%s", bt, st, name), Enc: row, Ctx: ctx, Origin: "crafted"}
					out = append(out, e)
				}
			}
		}
	}
	// ---- packages the library writes itself
	addLib := func(name string, p tds.Package, ctx tds.Package) {
		enc, err := hx.Encode(p)
		if err != nil {
			return
		}
		e := Entry{Name: name, Enc: enc, Origin: "lib", Lib: p}
		if ctx != nil {
			c, err := hx.Encode(ctx)
			if err != nil {
				return
			}
			e.Ctx = c
		}
		if !seen[string(enc)+"|"+string(e.Ctx)] {
			seen[string(enc)+"|"+string(e.Ctx)] = true
			out = append(out, e)
		}
	}
	for _, n := range lens {
		addLib(fmt.Sprintf("language%d", n), &tds.LanguagePackage{Status: tds.TDS_LANGUAGE_HASARGS, Cmd: str(n * 5)}, nil)
		for _, wide := range []bool{false, true} {
			for _, typ := range []tds.DynamicOperationType{tds.TDS_DYN_PREPARE, tds.TDS_DYN_EXEC, tds.TDS_DYN_DEALLOC, tds.TDS_DYN_EXEC_IMMED, tds.TDS_DYN_ACK} {
				d := tds.NewDynamicPackage(wide)
				d.Type, d.Status, d.ID, d.Stmt = typ, tds.TDS_DYNAMIC_HASARGS, str(n), str((n*7)%300)
				addLib(fmt.Sprintf("dynamic-w%v-t%d-%d", wide, typ, n), d, nil)
			}
		}
		cd, _ := tds.NewCurDeclarePackage(str(n%256), str(n*3), tds.CursorDStatus(n%4), tds.CursorOption(n%8))
		addLib(fmt.Sprintf("curdeclare%d", n), cd, nil)
		addLib(fmt.Sprintf("curopen%d", n), &tds.CurOpenPackage{CursorID: int32(n), Name: str(n % 31), Status: tds.CursorOStatus(n % 2)}, nil)
		addLib(fmt.Sprintf("curopen-noid%d", n), &tds.CurOpenPackage{CursorID: 0, Name: str(n % 256)}, nil)
		addLib(fmt.Sprintf("curfetch%d", n), &tds.CurFetchPackage{CursorID: int32(n + 1), Type: tds.CursorFetchType(1 + n%6), RowNumber: int32(n)}, nil)
		addLib(fmt.Sprintf("curfetch-name%d", n), &tds.CurFetchPackage{CursorID: 0, Name: str(n), Type: tds.CursorFetchType(1 + n%6), RowNumber: int32(n)}, nil)
		addLib(fmt.Sprintf("curclose%d", n), &tds.CurClosePackage{CursorID: int32(n), Name: str(n), Options: tds.CursorCloseOption(n % 2)}, nil)
		addLib(fmt.Sprintf("curupdate%d", n), &tds.CurUpdatePackage{CursorID: int32(n), Name: str(n), Status: tds.CursorOStatus(n % 2), TableName: str(n / 2), Stmt: str(n * 2)}, nil)
		addLib(fmt.Sprintf("curdelete%d", n), &tds.CurDeletePackage{CursorID: int32(n), Name: str(n), TableName: str(n / 2)}, nil)
		for _, st := range []int{0, 1, 2, 4, 8, 0x20, 0x40} {
			ci := &tds.CurInfoPackage{CursorID: int32(n), Name: str(n), Command: tds.CursorCommand(1 + n%5), Status: tds.CursorIStatus(st), RowNum: 11, TotalRows: 222, RowCount: 3333}
			addLib(fmt.Sprintf("curinfo%d-st%x", n, st), ci, nil)
			// the wide variant is only reachable through the token
			if wp, err := tds.LookupPackage(tds.TDS_CURINFO3); err == nil {
				if w, ok := wp.(*tds.CurInfoPackage); ok {
					w.CursorID, w.Name, w.Command, w.Status, w.RowNum, w.TotalRows, w.RowCount = int32(n), str(n), tds.CursorCommand(1+n%5), tds.CursorIStatus(st), 11, 222, 3333
					addLib(fmt.Sprintf("curinfo3-%d-st%x", n, st), w, nil)
				}
			}
			if wp, err := tds.LookupPackage(tds.TDS_CURDECLARE); err == nil {
				if w, ok := wp.(*tds.CurDeclarePackage); ok {
					w.Name, w.Stmt, w.Status, w.Options = str(n%256), str(n*2), tds.CursorDStatus(st%4), tds.CursorOption(st%8)
					addLib(fmt.Sprintf("curdeclare-narrow%d-st%x", n, st), w, nil)
				}
			}
		}
	}
	addLib("logout", &tds.LogoutPackage{}, nil)
	addLib("msg", tds.NewMsgPackage(tds.TDS_MSG_HASARGS, tds.TDS_MSG_SEC_LOGPWD3), nil)
	addLib("done", &tds.DonePackage{Status: tds.TDS_DONE_COUNT, TranState: tds.TDS_TRAN_COMPLETED, Count: 5}, nil)
	addLib("eed", &tds.EEDPackage{MsgNumber: 9, State: 1, Class: 2, SQLState: []byte("ZZZZZ"), Status: tds.TDS_EED_FOLLOWS, TranState: 1, Msg: "msg", ServerName: "srv", ProcName: "proc", LineNr: 4}, nil)
	addLib("error", &tds.ErrorPackage{ErrorNumber: 5, State: 1, Class: 2, ErrorMsg: "msg", ServerName: "srv", ProcName: "p", LineNr: 3}, nil)
	addLib("returnstatus", &tds.ReturnStatusPackage{ReturnValue: -7}, nil)
	addLib("envchange", &tds.EnvChangePackage{}, nil)
	if caps, err := tds.NewCapabilityPackage([]tds.RequestCapability{tds.TDS_REQ_LANG, tds.TDS_DATA_INT8, tds.TDS_REQ_DYN_BATCH}, []tds.ResponseCapability{tds.TDS_RES_NO_TDSCONTROL}, nil); err == nil {
		addLib("capability", caps, nil)
	}
	// parameter formats and data over all data types the library can look up
	for dt := 0; dt < 256; dt++ {
		f, d, err := tds.LookupFieldFmtData(asetypes.DataType(dt))
		if err != nil {
			continue
		}
		_ = d
		f.SetName("p")
		for _, wide := range []bool{false, true} {
			for _, st := range []uint{0, 0x8, 0x20} {
				f2, _, _ := tds.LookupFieldFmtData(asetypes.DataType(dt))
				f2.SetName(str(dt % 31))
				f2.SetStatus(st)
				f2.SetUserType(int32(dt))
				f2.SetLocaleInfo(str(dt % 5))
				addLib(fmt.Sprintf("paramfmt-w%v-dt%x-st%x", wide, dt, st), tds.NewParamFmtPackage(wide, f2), nil)
				// the layout the protocol prescribes for what was SET (not for what the accessors report)
				want := rx.RefFmt(f2, false)
				want.Name, want.Status, want.UserType, want.Locale = str(dt%31), uint32(st), int32(dt), str(dt%5)
				// (types the reference codec has no layout for - placeholders, BLOB - are left to the read-back check)
				if _, known := tdsval.Names[byte(dt)]; !known || dt == 0x24 {
					continue
				}
				if n := len(out); n > 0 && out[n-1].Name == fmt.Sprintf("paramfmt-w%v-dt%x-st%x", wide, dt, st) {
					out[n-1].Ref = tdspkg.ParamFmt{Wide: wide, Fmts: []tdspkg.Fmt{want}}
				}
			}
		}
	}
	for bit := uint(8); bit < 32; bit++ {
		f2, _, _ := tds.LookupFieldFmtData(asetypes.INT4)
		f2.SetName("wide-status")
		f2.SetStatus(0x20 | 1<<bit)
		addLib(fmt.Sprintf("paramfmt-wide-status-bit%d", bit), tds.NewParamFmtPackage(true, f2), nil)
		want := rx.RefFmt(f2, false)
		want.Name, want.Status = "wide-status", 0x20|1<<bit
		if n := len(out); n > 0 && out[n-1].Name == fmt.Sprintf("paramfmt-wide-status-bit%d", bit) {
			out[n-1].Ref = tdspkg.ParamFmt{Wide: true, Fmts: []tdspkg.Fmt{want}}
		}
	}
	return out
}
