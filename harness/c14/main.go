//go:build vrt

// C14 — transport failure yields a clean prefix and then an error.
// Fault enumeration on the real Conn under the controlled scheduler with
// virtual time: for every response of the corpus (up to a size bound) and
// EVERY byte offset 0..len of its packet stream, the transport delivers that
// many bytes and then ends (EOF), fails reset-style or fails timeout-style;
// plus every index of a failing / short transport write of a request.
package main

import (
	"context"
	"errors"
	"fmt"
	"os"
	"strings"
	"time"

	"github.com/SAP/go-dblib/tds"
	"github.com/SAP/go-dblib/vrt"
	"verif/harness/hx"
	"verif/harness/rx"
	"verif/hlib"
)

type Case struct {
	Kind   string `json:"kind"` // read-fault | write-fault
	Resp   string `json:"resp,omitempty"`
	Offset int    `json:"offset"`
	Fail   string `json:"fail"`            // eof | reset | timeout   (write: error | short)
	Chunk  int    `json:"chunk,omitempty"` // 0: bytes arrive in one read; else read size
	Late   bool   `json:"late,omitempty"`  // the consumer calls NextPackage only after the reader has processed everything that arrived
	Prev   string `json:"prev,omitempty"`  // history: this response was received completely and drained on the channel before
	// Poll: the consumer polls with wait=false (sleeping one virtual second when nothing is ready); explored under
	// all schedules with at most 1 (thorough 2) deviations - which ready case a select takes is a choice
	Poll    bool  `json:"poll,omitempty"`
	Choices []int `json:"choices,omitempty"`
}

// while a case is explored under several schedules its violations are handed to the explorer
var pollBound int
var exploring bool
var pendSig, pendDet string

func report(sig, det string, c Case) {
	if exploring {
		if pendSig == "" {
			pendSig, pendDet = sig, det
		}
		return
	}
	h.Violate(sig, det, c)
}

var h *hlib.H
var corpus = map[string]rx.Response{}

const readTimeout = 50

func packetsOf(r rx.Response) [][]byte {
	n := len(r.Bytes())
	var cuts []int
	if n >= 3 {
		cuts = []int{n / 3, 2 * n / 3}
	}
	return rx.Packets(r.Bytes(), cuts)
}

// baseline: descriptions delivered per completely received packet count
func baseline(r rx.Response) (all []string, afterPackets [][]string) {
	pk := packetsOf(r)
	for i := 0; i <= len(pk); i++ {
		o, _ := rx.Deliver(vrt.Config{}, rx.Script{Chunks: rx.OneChunk(pk[:i])}, func(conn *tds.Conn, ch *tds.Channel, pipe *vrt.Pipe, o *rx.Obs) {
			vrt.Settle()
			for {
				p, err := ch.NextPackage(context.Background(), false)
				if err != nil {
					break
				}
				o.Items = append(o.Items, rx.Item{Desc: rx.LibDesc(p)})
			}
			vrt.Finish()
		})
		afterPackets = append(afterPackets, o.Descs())
		if i == len(pk) {
			all = o.Descs()
		}
	}
	return
}

type base struct {
	all   []string
	after [][]string
}

var bases = map[string]base{}

func runRead(c Case) {
	if !c.Poll {
		runReadCfg(c, vrt.Config{Choices: c.Choices, Lenient: len(c.Choices) > 0})
		return
	}
	if len(c.Choices) > 0 { // replay of one schedule
		x := runReadCfg(c, vrt.Config{Choices: c.Choices, TraceOps: os.Getenv("VERIF_TRACE") != ""})
		for _, l := range x.Trace {
			fmt.Println("trace:", l)
		}
		return
	}
	bound := 1
	if h.Thorough {
		bound = 2
	}
	pollBound = bound
	st := vrt.ExploreFn(vrt.ExploreCfg{Bound: bound, Deadline: h.Deadline(),
		Check: func(x *vrt.Exec) (string, string) {
			s, d := pendSig, pendDet
			pendSig, pendDet = "", ""
			return s, d
		},
		OnViolation: func(sig, det string, choices []int, x *vrt.Exec) {
			cc := c
			cc.Choices = append([]int{}, choices...)
			h.Violate(sig, fmt.Sprintf("%s [schedule %v]", det, choices), cc)
		}},
		func(cfg vrt.Config) *vrt.Exec {
			exploring = true
			defer func() { exploring = false }()
			return runReadCfg(c, cfg)
		})
	if st.Diverged != "" {
		h.Fatal("diverged: %s", st.Diverged)
	}
}

func runReadCfg(c Case, cfg vrt.Config) *vrt.Exec {
	r := corpus[c.Resp]
	b, ok := bases[c.Resp]
	if !ok {
		a, af := baseline(r)
		b = base{a, af}
		bases[c.Resp] = b
	}
	pk := packetsOf(r)
	stream := hx.Concat(pk...)
	sc := rx.Script{Timeout: readTimeout}
	data := stream[:c.Offset]
	if c.Chunk > 0 {
		for len(data) > 0 {
			n := c.Chunk
			if n > len(data) {
				n = len(data)
			}
			sc.Chunks = append(sc.Chunks, data[:n])
			data = data[n:]
		}
	} else if len(data) > 0 {
		sc.Chunks = [][]byte{data}
	}
	var prevAll []string
	if c.Prev != "" {
		pr := corpus[c.Prev]
		pb, ok := bases[c.Prev]
		if !ok {
			a, af := baseline(pr)
			pb = base{a, af}
			bases[c.Prev] = pb
		}
		prevAll = pb.all
		sc.Chunks = append([][]byte{hx.Concat(packetsOf(pr)...)}, sc.Chunks...)
	}
	switch c.Fail {
	case "eof":
		sc.Close = true
	case "reset":
		sc.Fail = vrt.ErrReset
	case "timeout":
		sc.Fail = vrt.ErrTimeout
	}
	var failAt, errAt, err2At time.Duration
	gotErr, gotErr2 := "", "(package)"
	polls := 0
	o, x := rx.Deliver(cfg, sc, func(conn *tds.Conn, ch *tds.Channel, pipe *vrt.Pipe, o *rx.Obs) {
		ctx, cancel := vrt.WithTimeout(context.Background(), 10*time.Hour)
		defer cancel()
		polls = 0
		next := func() (tds.Package, error) {
			if !c.Poll {
				return ch.NextPackage(ctx, true)
			}
			for {
				p, err := ch.NextPackage(ctx, false)
				if err == nil || !errors.Is(err, tds.ErrNoPackageReady) || polls > 3*readTimeout {
					return p, err
				}
				polls++
				vrt.Sleep(time.Second)
			}
		}
		for i := 0; i < len(prevAll); i++ { // the earlier response, completely
			p, err := next()
			if err != nil || rx.LibDesc(p) != prevAll[i] {
				o.Failure = fmt.Sprintf("earlier-response-disturbed: package %d of the complete earlier response %s: %v %v", i, c.Prev, p, err)
				vrt.Finish()
				return
			}
		}
		for len(o.Items) < 300 {
			if c.Late {
				vrt.Settle()
			}
			p, err := next()
			if err != nil {
				gotErr = err.Error()
				errAt = vrt.Now()
				// a second receive after the failure must not block either
				if c.Offset < len(stream) {
					_, err2 := next()
					err2At = vrt.Now()
					if err2 != nil {
						gotErr2 = err2.Error()
					}
				}
				break
			}
			d := rx.LibDesc(p)
			o.Items = append(o.Items, rx.Item{Desc: d})
			if rx.IsFinalDone(d) {
				break
			}
		}
		vrt.Finish()
	})
	_ = failAt
	h.Eval(c.Offset > 0 && c.Offset < len(stream))
	h.State()
	h.AddTransitions(int64(x.Steps))
	h.Trace()
	if x.Diverged != "" {
		h.Fatal("diverged: %s", x.Diverged)
	}
	pollsExhausted := c.Poll && polls > 3*readTimeout
	// position class
	full := 0
	off := 0
	inHeader := false
	for _, p := range pk {
		if c.Offset >= off+len(p) {
			full++
		} else if c.Offset > off && c.Offset < off+8 {
			inHeader = true
		}
		off += len(p)
	}
	pos := "packet-boundary"
	if inHeader {
		pos = "inside-header"
	} else if c.Offset != 0 && full < len(pk) {
		o2 := 0
		for i := 0; i < full; i++ {
			o2 += len(pk[i])
		}
		if c.Offset > o2 {
			pos = "inside-body"
		}
	}
	cls := c.Fail + "|" + pos
	if c.Late {
		cls += "|late-consumer"
	}
	if c.Prev != "" {
		cls += "|after-earlier-response"
	}
	if c.Poll {
		cls += "|polling-consumer"
	}
	ctxt := fmt.Sprintf("%s: %d of %d stream bytes (%d of %d packets complete) then %s", c.Resp, c.Offset, len(stream), full, len(pk), c.Fail)
	if c.Prev != "" {
		ctxt = "after the complete response " + c.Prev + ", " + ctxt
	}
	if x.Failure != nil && x.Failure.Kind == "steps" && x.Now <= time.Duration(readTimeout)*time.Second {
		// the step budget ran out before the read timeout had passed in virtual time (a reader that polls
		// a dead transport every few hundred microseconds takes hundreds of thousands of steps to get
		// there): nothing is decided for this case, the run is not exhaustive
		h.Cap(fmt.Sprintf("%s offset %d %s: step budget exhausted at %v of virtual time, before the read timeout", c.Resp, c.Offset, c.Fail, x.Now))
		return x
	}
	if o.Failure != "" {
		kind := strings.SplitN(o.Failure, ":", 2)[0]
		report("C14|"+kind+"|"+cls, fmt.Sprintf("%s: %s; received %v", ctxt, o.Failure, o.Descs()), c)
		return x
	}
	got := o.Descs()
	// prefix of the baseline
	for i, g := range got {
		if i >= len(b.all) || b.all[i] != g {
			what := "package-not-in-response"
			if rx.IsFinalDone(g) {
				what = "spurious-final-done"
			}
			report("C14|"+what+"|"+cls, fmt.Sprintf("%s: received %q at position %d, the complete response delivers %v", ctxt, g, i, b.all), c)
			return x
		}
	}
	complete := c.Offset == len(stream)
	if len(got) > 0 && rx.IsFinalDone(got[len(got)-1]) && !complete {
		report("C14|spurious-final-done|"+cls, fmt.Sprintf("%s: a final DONE was delivered although the response was not received completely: %v", ctxt, got), c)
		return x
	}
	if complete {
		if len(got) != len(b.all) {
			report("C14|complete-response-not-delivered|"+cls, fmt.Sprintf("%s: received %v (%s), want %v", ctxt, got, gotErr, b.all), c)
		} else {
			h.Outcome("complete")
		}
		return x
	}
	// at least every package lying in completely received packets
	must := b.after[full]
	if len(got) < len(must) {
		report("C14|prefix-too-short|"+cls, fmt.Sprintf("%s: received only %d packages %v before the error (%s); the %d completely received packets contain %v", ctxt, len(got), got, gotErr, full, must), c)
		return x
	}
	if pollsExhausted {
		// every poll took the "nothing ready" case of the non-waiting receive although something was
		// queued: possible under this one schedule (a select among ready cases), impossible forever
		// under a fair choice - the schedule is inconclusive for latency, the prefix was checked above
		h.Outcome("polling-consumer-starved-by-the-schedule")
		return x
	}
	if gotErr == "" {
		report("C14|no-error|"+cls, fmt.Sprintf("%s: received %v and no error", ctxt, got), c)
		return x
	}
	if strings.Contains(gotErr, "passed context is closed") {
		report("C14|blocked-until-own-context-expired|"+cls, fmt.Sprintf("%s: the consumer got no error from the library; its own 10h context expired (%s); received %v", ctxt, gotErr, got), c)
		return x
	}
	// code that polls a dead transport notices its deadline at its next poll; the explorer grants
	// polling threads virtual time in quanta of 100 ms: a quarter of a second is the resolution of
	// "no later than the read timeout" here
	slack := 250 * time.Millisecond
	if c.Poll {
		// the polling consumer looks once per virtual second, and a poll may miss a queued error: the
		// non-waiting receive selects among its ready cases, one of which says "nothing ready" - one
		// more poll per deviation of the explored schedule
		slack += time.Duration(1+len(c.Choices)) * time.Second
		if exploring {
			slack = 250*time.Millisecond + time.Duration(1+pollBound)*time.Second
		}
	}
	if errAt > time.Duration(readTimeout)*time.Second+slack {
		report("C14|error-later-than-read-timeout|"+cls, fmt.Sprintf("%s: error %q only after %v of virtual time (read timeout %ds)", ctxt, gotErr, errAt, readTimeout), c)
		return x
	}
	if strings.Contains(gotErr2, "passed context is closed") || err2At-errAt > time.Duration(readTimeout)*time.Second+slack {
		report("C14|second-receive-blocks|"+cls, fmt.Sprintf("%s: the first receive reported %q at %v; the next receive returned %q only at %v (read timeout %ds)", ctxt, gotErr, errAt, gotErr2, err2At, readTimeout), c)
		return x
	}
	h.Outcome(fmt.Sprintf("prefix+error-%s@%s", pos, errAt))
	return x
}

var totalWrites = -1

func runWrite(c Case) {
	if totalWrites < 0 && c.Offset != 99 {
		totalWrites = 0
		runWrite(Case{Kind: "write-fault", Offset: 99, Fail: "error"})
	}
	var sendErr error
	var writes int
	done := false
	x := vrt.Run(vrt.Config{}, func() {
		conn, pipe, err := hx.NewConn(context.Background(), 100, readTimeout)
		if err != nil {
			return
		}
		ch, err := conn.NewChannel()
		if err != nil {
			return
		}
		n := 0
		e := error(vrt.ErrReset)
		if c.Fail == "short" {
			n = 5
			e = nil
		}
		pipe.FailWrite(c.Offset, n, e)
		ctx, cancel := vrt.WithTimeout(context.Background(), time.Hour)
		defer cancel()
		sendErr = ch.SendPackage(ctx, &tds.LanguagePackage{Cmd: strings.Repeat("x", 1500)})
		writes = len(pipe.Writes())
		if c.Offset == 99 {
			totalWrites = writes
		}
		done = true
		vrt.Finish()
	})
	if c.Offset == 99 {
		return
	}
	h.Eval(true)
	h.State()
	h.AddTransitions(int64(x.Steps))
	h.Trace()
	ctxt := fmt.Sprintf("request of 3 packets, transport write %d %s", c.Offset, c.Fail)
	switch {
	case x.Failure != nil:
		h.Violate("C14|write|"+x.Failure.Kind, ctxt+": "+x.Failure.String(), c)
	case !done:
		h.Violate("C14|write|not-returned", ctxt+": SendPackage did not return", c)
	case c.Offset < totalWrites && sendErr == nil:
		h.Violate("C14|write|failure-not-reported|"+c.Fail, fmt.Sprintf("%s: SendPackage returned nil (%d writes reached the transport)", ctxt, writes), c)
	default:
		h.Outcome("write-fault-reported")
	}
}

func run(c Case) {
	if c.Kind == "write-fault" {
		runWrite(c)
	} else {
		runRead(c)
	}
}

func main() {
	h = hlib.Init("C14")
	for _, r := range rx.Corpus() {
		corpus[r.Name] = r
	}
	var rc Case
	if h.ReplayCase(&rc) {
		run(rc)
		h.ReplayReport()
	}
	maxLen := 140
	if h.Thorough {
		maxLen = 450
	}
	idx := 0
	for _, r := range rx.Corpus() {
		n := len(hx.Concat(packetsOf(r)...))
		if n > maxLen+24 {
			continue
		}
		for k := 0; k <= n; k++ {
			idx++
			if !h.Mine(idx) {
				continue
			}
			if h.Expired("offset enumeration cut short at " + r.Name) {
				break
			}
			for _, f := range []string{"eof", "reset", "timeout"} {
				c := Case{Kind: "read-fault", Resp: r.Name, Offset: k, Fail: f}
				run(c)
				h.Sample(func() interface{} { return c })
				h.Section("read-faults", 1)
				run(Case{Kind: "read-fault", Resp: r.Name, Offset: k, Fail: f, Late: true})
				h.Section("read-faults-late-consumer", 1)
				if k%3 == 0 {
					run(Case{Kind: "read-fault", Resp: r.Name, Offset: k, Fail: f, Chunk: 3})
					h.Section("read-faults-3-byte-reads", 1)
				}
				if f != "timeout" && (h.Thorough || k%2 == 0) {
					run(Case{Kind: "read-fault", Resp: r.Name, Offset: k, Fail: f, Poll: true})
					h.Section("read-faults-polling-consumer", 1)
				}
				// history: an earlier response on the channel (ending in a real final DONE / in a
				// DONE the library had to complete / multi-packet rows)
				for pi, prev := range []string{"rows", "done-final", "returnstatus-doneproc"} {
					if h.Thorough || (k+pi)%3 == 0 {
						run(Case{Kind: "read-fault", Resp: r.Name, Offset: k, Fail: f, Prev: prev})
						h.Section("read-faults-after-earlier-response", 1)
					}
				}
			}
		}
	}
	for j := 0; j <= 4; j++ {
		for _, f := range []string{"error", "short"} {
			if h.Mine(0) {
				run(Case{Kind: "write-fault", Offset: j, Fail: f})
				h.Section("write-faults", 1)
			}
		}
	}
	h.Done()
}
