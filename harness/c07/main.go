// C07 — incomplete package data is always reported as "not enough bytes".
// For every valid encoding of the corpus and EVERY proper prefix: parsing
// the prefix must fail with an error matching ErrNotEnoughBytes (never
// success, another error or a panic), and parsing the complete bytes
// afterwards gives the same result as if the truncated attempt had never
// happened.
package main

import (
	"errors"
	"fmt"
	"strings"

	"github.com/SAP/go-dblib/tds"
	"verif/harness/hx"
	"verif/harness/pkgcorpus"
	"verif/hlib"
)

type Case struct {
	Entry string `json:"entry"`
	K     int    `json:"k"` // prefix length
	Via   string `json:"via"` // "flat" | "queue"
}

var h *hlib.H
var corpus = map[string]pkgcorpus.Entry{}

func kindOf(e pkgcorpus.Entry) string {
	p, _ := tds.LookupPackage(tds.Token(e.Enc[0]))
	return strings.TrimPrefix(fmt.Sprintf("%T", p), "*tds.")
}

// parse through a real PacketQueue holding packets with the given bodies
func parseQueue(e pkgcorpus.Entry, bodies [][]byte) (tds.Package, error, *tds.PacketQueue) {
	q := tds.NewPacketQueue(func() int { return 512 })
	for _, b := range bodies {
		q.AddPacket(&tds.Packet{Header: tds.PacketHeader{Length: uint16(8 + len(b))}, Data: append([]byte{}, b...)})
	}
	var ctx tds.Package
	if e.Ctx != nil {
		c, err := pkgcorpus.Parse(pkgcorpus.Entry{Enc: e.Ctx}, e.Ctx)
		if err != nil {
			return nil, fmt.Errorf("context: %w", err), q
		}
		ctx = c
	}
	tok, err := q.Byte()
	if err != nil {
		return nil, err, q
	}
	pkg, err := tds.LookupPackage(tds.Token(tok))
	if err != nil {
		return nil, err, q
	}
	if acc, ok := pkg.(tds.LastPkgAcceptor); ok {
		if err := acc.LastPkg(ctx); err != nil {
			return nil, err, q
		}
	}
	return pkg, pkg.ReadFrom(q), q
}

func run(c Case) {
	e, ok := corpus[c.Entry]
	if !ok {
		h.Fatal("unknown corpus entry %q", c.Entry)
	}
	kind := kindOf(e)
	h.Eval(c.K > 1)
	full, ferr := pkgcorpus.Parse(e, e.Enc)
	if ferr != nil {
		// not a valid encoding for the library: C06's business, nothing to truncate
		h.Outcome("skipped-unparsable")
		return
	}
	want := hlib.Dump(full, "sync.Mutex")
	prefix := e.Enc[:c.K]
	var pkg tds.Package
	var err error
	var q *tds.PacketQueue
	pan, msg := hlib.Catch(func() {
		if c.Via == "flat" {
			pkg, err = pkgcorpus.Parse(e, prefix)
		} else {
			pkg, err, q = parseQueue(e, [][]byte{prefix})
		}
	})
	_ = pkg
	where := fmt.Sprintf("%s (%s, %d bytes) cut after %d bytes via %s", e.Name, kind, len(e.Enc), c.K, c.Via)
	switch {
	case pan:
		h.Violate("C07|"+kind+"|panic", fmt.Sprintf("%s: panic: %s", where, msg), c)
		return
	case err == nil:
		h.Violate("C07|"+kind+"|truncated-accepted", fmt.Sprintf("%s: parsing succeeded: %s", where, rx(pkg)), c)
		return
	case !errors.Is(err, tds.ErrNotEnoughBytes):
		h.Violate("C07|"+kind+"|other-error", fmt.Sprintf("%s: error is not ErrNotEnoughBytes: %v", where, err), c)
		return
	}
	// resumption: the rest arrives as a second packet, the saved position is restored, a fresh package parses
	if c.Via == "queue" && q != nil {
		q.SetPosition(0, 0)
		q.AddPacket(&tds.Packet{Header: tds.PacketHeader{Length: uint16(8 + len(e.Enc) - c.K), Status: tds.TDS_BUFSTAT_EOM}, Data: append([]byte{}, e.Enc[c.K:]...)})
		var pkg2 tds.Package
		var err2 error
		pan, msg = hlib.Catch(func() {
			var ctx tds.Package
			if e.Ctx != nil {
				ctx, _ = pkgcorpus.Parse(pkgcorpus.Entry{Enc: e.Ctx}, e.Ctx)
			}
			tok, _ := q.Byte()
			pkg2, _ = tds.LookupPackage(tds.Token(tok))
			if acc, ok := pkg2.(tds.LastPkgAcceptor); ok {
				acc.LastPkg(ctx)
			}
			err2 = pkg2.ReadFrom(q)
		})
		if pan || err2 != nil {
			h.Violate("C07|"+kind+"|resume-fails", fmt.Sprintf("%s: parsing the complete data afterwards: panic=%v %s err=%v", where, pan, msg, err2), c)
			return
		}
		if got := hlib.Dump(pkg2, "sync.Mutex"); got != want {
			h.Violate("C07|"+kind+"|resume-differs", fmt.Sprintf("%s: the complete parse after the truncated attempt differs from a clean parse", where), c)
			return
		}
	}
	h.Outcome("not-enough-bytes")
}

func rx(p tds.Package) (s string) {
	defer func() {
		if r := recover(); r != nil {
			s = "<String panicked>"
		}
	}()
	s = fmt.Sprint(p)
	if len(s) > 150 {
		s = s[:150]
	}
	return
}

var _ = hx.Concat

func main() {
	h = hlib.Init("C07")
	level := 0
	if h.Thorough {
		level = 1
	}
	entries := pkgcorpus.Build(level)
	for _, e := range entries {
		corpus[e.Name] = e
	}
	var rc Case
	if h.ReplayCase(&rc) {
		run(rc)
		h.ReplayReport()
	}
	idx := 0
	for _, e := range entries {
		idx++
		if !h.Mine(idx) {
			continue
		}
		if h.Expired("corpus cut short") {
			break
		}
		n := len(e.Enc)
		for k := 1; k < n; k++ {
			if n > 2048 && !h.Thorough && k > 300 && k < n-300 && k%251 != 0 {
				continue // long encodings: all prefixes near both ends, every 251st in between
			}
			c := Case{Entry: e.Name, K: k, Via: "queue"}
			run(c)
			h.Sample(func() interface{} { return c })
			if k%4 == 1 || n < 64 {
				run(Case{Entry: e.Name, K: k, Via: "flat"})
			}
		}
		h.Section("encodings", 1)
	}
	h.R.Extra["corpus_entries"] = len(entries)
	h.Done()
}
