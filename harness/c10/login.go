package main

import (
	"fmt"
	"strings"
	"time"

	"verif/harness/lg"
	"verif/ref/tdspkg"
)

// LoginCase: the encrypted login conversation with the server's key
// parameters replaced - bytes a server can send reach more than the parsers:
// the key goes through PEM and ASN.1 decoding inside Channel.Login.
type LoginCase struct {
	Suite int32  `json:"suite"`
	Key   []byte `json:"key"`
	Nonce []byte `json:"nonce"`
	What  string `json:"what"`
}

func runLoginCase(c LoginCase) {
	reps := lg.ValidReplies(true, 1024, []byte("0123456789abcdef"))
	pk := reps[0].Pkgs
	d := pk[len(pk)-2].(tdspkg.Data)
	d.Values = []interface{}{c.Suite, c.Key, c.Nonce}
	pk[len(pk)-2] = d
	res := lg.Run(lg.Scenario{Encrypt: true, User: "sa", Password: "secret-password", Host: "client-host", App: "app", Replies: reps, Timeout: 30 * time.Second})
	h.Eval(true)
	h.Section("login-conversation", 1)
	if strings.HasPrefix(res.Failure, "DIVERGED") {
		h.Fatal("%s", res.Failure)
	}
	if strings.HasPrefix(res.Failure, "panic") {
		h.Violate("C10|Login|panic|"+c.What, fmt.Sprintf("login conversation with %s (cipher suite %d, key %q, nonce of %d bytes): %s", c.What, c.Suite, head(c.Key), len(c.Nonce), res.Failure), Case{Kind: "login", Login: &c})
		return
	}
	outcomes["login:"+fmt.Sprint(res.Err == nil)]++
}

func loginLeg(idx *int) {
	pem := lg.PublicPEM(1024)
	keys := map[string][]byte{
		"empty-key": {}, "newline-only-key": []byte("\n"), "blanks-only-key": []byte(" \t\r\n "), "nul-only-key": {0, 0, 0}, "text-key": []byte("not a key"),
		"begin-line-only": []byte("-----BEGIN RSA PUBLIC KEY-----\n"), "truncated-pem": pem[:len(pem)/2], "pem-with-empty-body": []byte("-----BEGIN RSA PUBLIC KEY-----\n-----END RSA PUBLIC KEY-----\n"),
		"pem-with-garbage-der": []byte("-----BEGIN RSA PUBLIC KEY-----\nAAAA\n-----END RSA PUBLIC KEY-----\n"), "pem-plus-newlines": append(append([]byte{}, pem...), '\n', '\n'),
		"pem-plus-text": append(append([]byte{}, pem...), []byte("trailing")...), "other-block-type": []byte(strings.Replace(string(pem), "RSA PUBLIC KEY", "CERTIFICATE", 2)),
		"two-pem-blocks": append(append([]byte{}, pem...), pem...), "long-text-key": []byte(strings.Repeat("A", 70000)), "512-bit-key": lg.PublicPEM(512), "valid-key": pem,
	}
	nonces := map[string][]byte{"usual-nonce": []byte("0123456789abcdef"), "empty-nonce": {}, "one-byte-nonce": {7}, "capacity-nonce": []byte(strings.Repeat("n", 86)), "over-capacity-nonce": []byte(strings.Repeat("n", 87)), "long-nonce": []byte(strings.Repeat("n", 5000))}
	var kn, nn []string
	for k := range keys {
		kn = append(kn, k)
	}
	for k := range nonces {
		nn = append(nn, k)
	}
	sortStrings(kn)
	sortStrings(nn)
	for _, k := range kn {
		for _, n := range nn {
			for _, suite := range []int32{1, 0, 2, -1, 0x7fffffff} {
				if suite != 1 && k != "valid-key" && k != "newline-only-key" {
					continue
				}
				*idx++
				if h.Mine(*idx) {
					runLoginCase(LoginCase{Suite: suite, Key: keys[k], Nonce: nonces[n], What: k + "+" + n})
				}
			}
		}
	}
}

func sortStrings(a []string) {
	for i := 1; i < len(a); i++ {
		for j := i; j > 0 && a[j] < a[j-1]; j-- {
			a[j], a[j-1] = a[j-1], a[j]
		}
	}
}
