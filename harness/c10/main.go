// C10 — no server input can crash the client.
// Bounded-exhaustive enumeration of malformed inputs on the real parsers:
// (i) every corpus encoding with every byte position replaced by boundary
// values (all 256 values in the structural head), (ii) every token followed
// by every tail of <= 2 bytes over all values and <= 4 bytes over boundary
// values, (iii) format packages followed by such row tails, (iv) GoValue of
// every data type with every data length 0..255, (v) packets with all 65536
// header length values. Every case runs under recover; allocation is
// measured per batch and attributed by re-running the batch case by case.
package main

import (
	"bytes"
	"context"
	"encoding/binary"
	"fmt"
	"runtime"
	"strings"

	"github.com/SAP/go-dblib/asetypes"
	"github.com/SAP/go-dblib/tds"
	"verif/harness/pkgcorpus"
	"verif/hlib"
	"verif/ref/tdsval"
)

type Case struct {
	Kind  string     `json:"kind"` // stream | govalue | packet
	Ctx   []byte     `json:"ctx,omitempty"`
	Data  []byte     `json:"data,omitempty"`
	DT    int        `json:"dt,omitempty"`
	Name  string     `json:"name,omitempty"`
	Login *LoginCase `json:"login,omitempty"`
}

var h *hlib.H

// parseStream feeds data as one EOM packet into a PacketQueue and parses
// packages the way Channel.tryParsePackage does, until an error or the end.
func parseStream(ctxEnc, data []byte) (n int, err error) {
	q := tds.NewPacketQueue(func() int { return 512 })
	q.AddPacket(&tds.Packet{Header: tds.PacketHeader{Length: uint16(8 + len(data)), Status: tds.TDS_BUFSTAT_EOM}, Data: data})
	var last tds.Package
	if ctxEnc != nil {
		last, _ = pkgcorpus.Parse(pkgcorpus.Entry{Enc: ctxEnc}, ctxEnc)
	}
	for i := 0; i < 64; i++ {
		tok, e := q.Byte()
		if e != nil {
			return n, nil
		}
		pkg, e := tds.LookupPackage(tds.Token(tok))
		if e != nil {
			return n, e
		}
		if tl, ok := pkg.(*tds.TokenlessPackage); ok {
			tl.Data.WriteByte(tok)
		}
		if acc, ok := pkg.(tds.LastPkgAcceptor); ok {
			if e := acc.LastPkg(last); e != nil {
				return n, e
			}
		}
		if e := pkg.ReadFrom(q); e != nil {
			return n, e
		}
		_ = pkg.String()
		last = pkg
		n++
	}
	return n, nil
}

func exec(c Case) string {
	switch c.Kind {
	case "stream":
		n, err := parseStream(c.Ctx, c.Data)
		switch {
		case err != nil && n > 0:
			return "stream: packages then error"
		case err != nil:
			return "stream: error"
		case n > 0:
			return "stream: packages"
		}
		return "stream: nothing"
	case "govalue":
		v, err := asetypes.DataType(c.DT).GoValue(binary.LittleEndian, c.Data)
		if err == nil && v != nil {
			_ = fmt.Sprint(v)
		}
		if err != nil {
			return "govalue: error"
		}
		return "govalue: value"
	case "packet":
		p := &tds.Packet{}
		_, err := p.ReadFrom(context.Background(), bytes.NewReader(c.Data), 0)
		if err != nil {
			return "packet: error"
		}
		return "packet: read"
	}
	return "?"
}

func class(c Case, msg string) string {
	cls := "other"
	switch {
	case strings.Contains(msg, "makeslice"):
		cls = "makeslice"
	case strings.Contains(msg, "index out of range"):
		cls = "index-out-of-range"
	case strings.Contains(msg, "slice bounds"):
		cls = "slice-bounds"
	case strings.Contains(msg, "nil pointer"):
		cls = "nil-dereference"
	case strings.Contains(msg, "interface conversion"):
		cls = "type-assertion"
	}
	return cls
}

func subject(c Case) string {
	switch c.Kind {
	case "govalue":
		return tdsval.Names[byte(c.DT)] + fmt.Sprintf("(%#x)", c.DT)
	case "packet":
		return "Packet.ReadFrom"
	}
	if len(c.Data) == 0 {
		return "empty"
	}
	p, _ := tds.LookupPackage(tds.Token(c.Data[0]))
	return strings.TrimPrefix(fmt.Sprintf("%T", p), "*tds.")
}

var batch []Case
var outcomes = map[string]int64{}

const batchSize = 2000
const allocPerCase = 2 << 20

func one(c Case, measure bool) {
	var before runtime.MemStats
	if measure {
		runtime.ReadMemStats(&before)
	}
	res := ""
	pan, msg := hlib.Catch(func() { res = exec(c) })
	if !pan && !measure {
		outcomes[res]++
	}
	if pan {
		h.Violate("C10|"+subject(c)+"|panic|"+class(c, msg), fmt.Sprintf("%s %s: input %x (context %x): panic: %s", c.Kind, c.Name, head(c.Data), head(c.Ctx), msg), c)
		h.Outcome("panic")
		return
	}
	if measure {
		var after runtime.MemStats
		runtime.ReadMemStats(&after)
		if d := after.TotalAlloc - before.TotalAlloc; d > allocPerCase+64*uint64(len(c.Data)) {
			h.Violate("C10|"+subject(c)+"|allocation-out-of-proportion", fmt.Sprintf("%s %s: input of %d bytes (%x) made the parser allocate %d bytes", c.Kind, c.Name, len(c.Data), head(c.Data), d), c)
			h.Outcome("over-allocation")
		}
	}
}

func flush() {
	if len(batch) == 0 {
		return
	}
	var before, after runtime.MemStats
	runtime.ReadMemStats(&before)
	for _, c := range batch {
		one(c, false)
	}
	runtime.ReadMemStats(&after)
	if after.TotalAlloc-before.TotalAlloc > uint64(len(batch))*(96<<10) {
		// somebody in this batch allocated a lot: attribute
		for _, c := range batch {
			one(c, true)
		}
	}
	batch = batch[:0]
}

func add(c Case, nontrivial bool) {
	h.Eval(nontrivial)
	c.Data = append([]byte{}, c.Data...)
	batch = append(batch, c)
	if len(batch) >= batchSize {
		flush()
	}
}

func head(b []byte) []byte {
	if len(b) > 48 {
		return b[:48]
	}
	return b
}

func main() {
	h = hlib.Init("C10")
	var rc Case
	if h.ReplayCase(&rc) {
		if rc.Login != nil {
			runLoginCase(*rc.Login)
		} else {
			one(rc, true)
		}
		h.ReplayReport()
	}
	level := 0
	if h.Thorough {
		level = 1
	}
	entries := pkgcorpus.Build(level)
	bvals := []int{0, 1, 2, 0x7f, 0x80, 0xfe, 0xff}
	maxLen := 160
	if h.Thorough {
		maxLen = 600
	}
	idx := 0
	// (i) single-byte mutations
	for _, e := range entries {
		idx++
		if !h.Mine(idx) || len(e.Enc) > maxLen {
			continue
		}
		if h.Expired("mutation sweep cut short") {
			break
		}
		if e.Origin == "crafted" {
			// every aligned 4-byte window replaced by boundary lengths (chunk length fields)
			for pos := 0; pos+4 <= len(e.Enc); pos++ {
				for _, v := range []uint32{0x7fffffff, 0x10000000, 0x00ffffff, 0x80000000, 0xffffffff, 0x00010000} {
					m := append([]byte{}, e.Enc...)
					m[pos], m[pos+1], m[pos+2], m[pos+3] = byte(v), byte(v>>8), byte(v>>16), byte(v>>24)
					add(Case{Kind: "stream", Ctx: e.Ctx, Data: m, Name: e.Name}, true)
				}
			}
		}
		for pos := 0; pos < len(e.Enc); pos++ {
			vals := bvals
			if pos < 24 || e.Origin == "crafted" {
				vals = nil
				for v := 0; v < 256; v++ {
					vals = append(vals, v)
				}
			} else {
				vals = append(append([]int{}, bvals...), int(e.Enc[pos])+1, int(e.Enc[pos])-1)
			}
			for _, v := range vals {
				if byte(v) == e.Enc[pos] {
					continue
				}
				m := append([]byte{}, e.Enc...)
				m[pos] = byte(v)
				add(Case{Kind: "stream", Ctx: e.Ctx, Data: m, Name: e.Name}, true)
			}
			// pairs over the structural head
			if pos < 8 && len(e.Enc) < 64 {
				for pos2 := pos + 1; pos2 < 10 && pos2 < len(e.Enc); pos2++ {
					for _, v := range bvals {
						for _, v2 := range bvals {
							m := append([]byte{}, e.Enc...)
							m[pos], m[pos2] = byte(v), byte(v2)
							add(Case{Kind: "stream", Ctx: e.Ctx, Data: m, Name: e.Name}, true)
						}
					}
				}
			}
		}
		h.Section("mutated-encodings", 1)
	}
	// (ii) every token followed by short arbitrary tails
	small := []byte{0, 1, 2, 0x7f, 0x80, 0xff}
	for tok := 0; tok < 256; tok++ {
		idx++
		if !h.Mine(idx) {
			continue
		}
		add(Case{Kind: "stream", Data: []byte{byte(tok)}, Name: "token-only"}, false)
		for a := 0; a < 256; a++ {
			add(Case{Kind: "stream", Data: []byte{byte(tok), byte(a)}, Name: "tail1"}, true)
			for b := 0; b < 256; b += 1 {
				if !h.Thorough && b%5 != 0 && b < 250 && b > 5 {
					continue
				}
				add(Case{Kind: "stream", Data: []byte{byte(tok), byte(a), byte(b)}, Name: "tail2"}, true)
			}
		}
		var rec func(cur []byte)
		rec = func(cur []byte) {
			if len(cur) > 1 {
				add(Case{Kind: "stream", Data: cur, Name: "tail-boundary"}, true)
			}
			if len(cur) >= 6 {
				return
			}
			for _, v := range small {
				rec(append(append([]byte{}, cur...), v))
			}
		}
		rec([]byte{byte(tok)})
		h.Section("token-tails", 1)
	}
	// (iii) format packages followed by row tails
	for _, e := range entries {
		if e.Origin != "ref" || (e.Ref.Kind() != "ROWFMT" && e.Ref.Kind() != "PARAMFMT") || len(e.Enc) > 120 {
			continue
		}
		idx++
		if !h.Mine(idx) {
			continue
		}
		tok := byte(0xD1)
		if e.Ref.Kind() == "PARAMFMT" {
			tok = 0xD7
		}
		var rec func(cur []byte)
		rec = func(cur []byte) {
			add(Case{Kind: "stream", Ctx: e.Enc, Data: cur, Name: "row-after-" + e.Name}, true)
			if len(cur) >= 5 {
				return
			}
			for _, v := range small {
				rec(append(append([]byte{}, cur...), v))
			}
		}
		rec([]byte{tok})
		for l := 0; l < 256; l++ {
			for _, fill := range []byte{0, 1, 0xff} {
				add(Case{Kind: "stream", Ctx: e.Enc, Data: append([]byte{tok, byte(l)}, bytes.Repeat([]byte{fill}, l)...), Name: "row-after-" + e.Name}, true)
				add(Case{Kind: "stream", Ctx: e.Enc, Data: append([]byte{tok, 0, byte(l)}, bytes.Repeat([]byte{fill}, l)...), Name: "row-after-" + e.Name}, true)
			}
		}
		h.Section("format+row-tails", 1)
	}
	// (vi) sequences of up to 3 valid packages in every order (mismatched format / data tokens included)
	{
		var atoms [][]byte
		names := map[string]bool{"orderless-row#0": true, "orderless-row#1": true, "done-final#0": true, "returnstatus-doneproc#0": true, "msg-done#0": true,
			"envchange-done#0": true, "orderby2-rows#1": true, "eed-info-only#0": true, "capability-done#0": true, "paramfmt-name1": true, "rowfmt-narrow-name1": true, "orderby1": true, "login-negotiation#0": true}
		for _, e := range entries {
			if names[e.Name] {
				atoms = append(atoms, e.Enc)
			}
		}
		atoms = append(atoms, []byte{0xD7, 5}, []byte{0xD7, 1, 0x61}, []byte{0xD1, 1, 0x61})
		for i, a := range atoms {
			idx++
			if !h.Mine(idx) {
				continue
			}
			for _, b := range atoms {
				add(Case{Kind: "stream", Data: append(append([]byte{}, a...), b...), Name: "pair"}, true)
				for _, c3 := range atoms {
					add(Case{Kind: "stream", Data: append(append(append([]byte{}, a...), b...), c3...), Name: "triple"}, true)
					for _, d := range atoms {
						if i%2 == 0 || h.Thorough {
							add(Case{Kind: "stream", Data: append(append(append(append([]byte{}, a...), b...), c3...), d...), Name: "quadruple"}, true)
						}
					}
				}
			}
		}
		h.Section("package-sequences", 1)
	}
	// (iv) GoValue: every data type x every length 0..255 x 4 fill patterns
	for dt := 0; dt < 256; dt++ {
		idx++
		if !h.Mine(idx) {
			continue
		}
		for l := 0; l <= 255; l++ {
			for _, fill := range []int{0, 1, 0xff, -1} {
				b := make([]byte, l)
				for i := range b {
					if fill < 0 {
						b[i] = byte(i*37 + 11)
					} else {
						b[i] = byte(fill)
					}
				}
				add(Case{Kind: "govalue", DT: dt, Data: b}, l > 0)
			}
		}
		h.Section("govalue", 1)
	}
	// (v) packets: all header length values x {exact, fewer, none}
	for l := 0; l < 65536; l++ {
		idx++
		if !h.Mine(idx) {
			continue
		}
		hd := []byte{4, 1, byte(l >> 8), byte(l), 0, 0, 0, 0}
		body := 0
		if l > 8 {
			body = l - 8
		}
		if l%1024 < 12 || l < 600 || h.Thorough {
			add(Case{Kind: "packet", Data: append(append([]byte{}, hd...), make([]byte, body)...), Name: "exact"}, true)
		}
		add(Case{Kind: "packet", Data: append(append([]byte{}, hd...), make([]byte, body/2)...), Name: "fewer"}, true)
		add(Case{Kind: "packet", Data: hd, Name: "header-then-eof"}, true)
		if l < 8 {
			add(Case{Kind: "packet", Data: hd[:l], Name: "short-header"}, true)
		}
	}
	flush()
	h.Section("packets", 1)
	// (vii) the login conversation with the server's key parameters replaced
	li := 0
	loginLeg(&li)
	for k, v := range outcomes {
		for i := int64(0); i < 1; i++ {
			h.Outcome(k)
		}
		h.Section("outcome "+k, v)
	}
	h.Done()
}
