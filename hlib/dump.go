package hlib

import (
	"fmt"
	"reflect"
	"sort"
	"strings"
	"unsafe"
)

// Dump renders a canonical textual form of v, following pointers and reading
// unexported fields (generic reflect+unsafe walker, no field names assumed).
// Funcs are rendered as nil/non-nil, channels as len/cap, maps with sorted
// keys, pointer cycles as back references. Types whose name is listed in
// skipTypes are rendered as "-".
func Dump(v interface{}, skipTypes ...string) string {
	d := &dumper{seen: map[uintptr]int{}, skip: map[string]bool{}}
	for _, s := range skipTypes {
		d.skip[s] = true
	}
	d.val(reflect.ValueOf(v), 0)
	return d.sb.String()
}

type dumper struct {
	sb   strings.Builder
	seen map[uintptr]int
	skip map[string]bool
}

func access(v reflect.Value) reflect.Value {
	if v.CanInterface() {
		return v
	}
	if v.CanAddr() {
		return reflect.NewAt(v.Type(), unsafe.Pointer(v.UnsafeAddr())).Elem()
	}
	return v
}

func (d *dumper) val(v reflect.Value, depth int) {
	if !v.IsValid() {
		d.sb.WriteString("<invalid>")
		return
	}
	if depth > 40 {
		d.sb.WriteString("<deep>")
		return
	}
	t := v.Type()
	if d.skip[t.String()] {
		d.sb.WriteString("-")
		return
	}
	switch v.Kind() {
	case reflect.Bool:
		fmt.Fprintf(&d.sb, "%v", v.Bool())
	case reflect.Int, reflect.Int8, reflect.Int16, reflect.Int32, reflect.Int64:
		fmt.Fprintf(&d.sb, "%d", v.Int())
	case reflect.Uint, reflect.Uint8, reflect.Uint16, reflect.Uint32, reflect.Uint64, reflect.Uintptr:
		fmt.Fprintf(&d.sb, "%d", v.Uint())
	case reflect.Float32, reflect.Float64:
		fmt.Fprintf(&d.sb, "%x", v.Float())
	case reflect.Complex64, reflect.Complex128:
		fmt.Fprintf(&d.sb, "%v", v.Complex())
	case reflect.String:
		fmt.Fprintf(&d.sb, "%q", v.String())
	case reflect.Func:
		if v.IsNil() {
			d.sb.WriteString("func:nil")
		} else {
			d.sb.WriteString("func")
		}
	case reflect.Chan:
		if v.IsNil() {
			d.sb.WriteString("chan:nil")
		} else {
			fmt.Fprintf(&d.sb, "chan(%d/%d)", v.Len(), v.Cap())
		}
	case reflect.UnsafePointer:
		d.sb.WriteString("uptr")
	case reflect.Ptr:
		if v.IsNil() {
			d.sb.WriteString("nil")
			return
		}
		p := v.Pointer()
		if id, ok := d.seen[p]; ok {
			fmt.Fprintf(&d.sb, "^%d", id)
			return
		}
		d.seen[p] = len(d.seen)
		d.sb.WriteString("&")
		d.val(v.Elem(), depth+1)
	case reflect.Interface:
		if v.IsNil() {
			d.sb.WriteString("nil")
			return
		}
		e := v.Elem()
		d.sb.WriteString("(" + e.Type().String() + ")")
		if e.Kind() != reflect.Ptr && e.Kind() != reflect.Map && e.Kind() != reflect.Slice && e.Kind() != reflect.Chan && e.Kind() != reflect.Func {
			// make it addressable for unexported field access
			c := reflect.New(e.Type()).Elem()
			if e.CanInterface() {
				c.Set(e)
				e = c
			}
		}
		d.val(e, depth+1)
	case reflect.Slice:
		if v.IsNil() {
			d.sb.WriteString("[]nil")
			return
		}
		if t.Elem().Kind() == reflect.Uint8 {
			v = access(v)
			if v.CanInterface() {
				fmt.Fprintf(&d.sb, "x%x", v.Bytes())
				return
			}
		}
		d.sb.WriteString("[")
		for i := 0; i < v.Len(); i++ {
			if i > 0 {
				d.sb.WriteString(",")
			}
			d.val(v.Index(i), depth+1)
		}
		d.sb.WriteString("]")
	case reflect.Array:
		d.sb.WriteString("[")
		for i := 0; i < v.Len(); i++ {
			if i > 0 {
				d.sb.WriteString(",")
			}
			d.val(v.Index(i), depth+1)
		}
		d.sb.WriteString("]")
	case reflect.Map:
		if v.IsNil() {
			d.sb.WriteString("map:nil")
			return
		}
		type kv struct{ k, v string }
		var items []kv
		it := v.MapRange()
		for it.Next() {
			kd := &dumper{seen: d.seen, skip: d.skip}
			kd.val(it.Key(), depth+1)
			vd := &dumper{seen: d.seen, skip: d.skip}
			vd.val(it.Value(), depth+1)
			items = append(items, kv{kd.sb.String(), vd.sb.String()})
		}
		sort.Slice(items, func(i, j int) bool { return items[i].k < items[j].k })
		d.sb.WriteString("map{")
		for _, e := range items {
			d.sb.WriteString(e.k + ":" + e.v + ";")
		}
		d.sb.WriteString("}")
	case reflect.Struct:
		d.sb.WriteString(t.Name() + "{")
		for i := 0; i < v.NumField(); i++ {
			f := v.Field(i)
			if !f.CanInterface() && f.CanAddr() {
				f = reflect.NewAt(f.Type(), unsafe.Pointer(f.UnsafeAddr())).Elem()
			}
			d.sb.WriteString(t.Field(i).Name + "=")
			d.val(f, depth+1)
			d.sb.WriteString(" ")
		}
		d.sb.WriteString("}")
	default:
		fmt.Fprintf(&d.sb, "<%s>", v.Kind())
	}
}

// FindFields returns, for the struct pointed to by ptr, all fields (at any
// embedding depth of directly contained structs) whose type equals typ.
func FindFields(ptr interface{}, typ reflect.Type) []reflect.Value {
	var out []reflect.Value
	var walk func(v reflect.Value)
	walk = func(v reflect.Value) {
		for i := 0; i < v.NumField(); i++ {
			f := v.Field(i)
			if !f.CanInterface() && f.CanAddr() {
				f = reflect.NewAt(f.Type(), unsafe.Pointer(f.UnsafeAddr())).Elem()
			}
			if f.Type() == typ {
				out = append(out, f)
			} else if f.Kind() == reflect.Struct {
				walk(f)
			}
		}
	}
	v := reflect.ValueOf(ptr)
	for v.Kind() == reflect.Ptr {
		v = v.Elem()
	}
	walk(v)
	return out
}
