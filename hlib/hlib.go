// Package hlib is the small runtime shared by all harness binaries: flag
// parsing, sharding, coverage counters, violation records, deadline
// handling and the JSON result file that cmd/vcheck merges into
// evidence/<id>.json.
package hlib

import (
	"encoding/json"
	"flag"
	"fmt"
	"os"
	"sort"
	"sync"
	"time"
)

// Violation is one failing case, identified by a signature (the failure
// class) and carrying the data needed to replay it.
type Violation struct {
	Sig    string          `json:"sig"`
	Detail string          `json:"detail"`
	Replay json.RawMessage `json:"replay"`
	Count  int64           `json:"count"`
}

// Result is what one harness process (one shard) reports.
type Result struct {
	Property    string                 `json:"property"`
	Tier        string                 `json:"tier"`
	Shard       int                    `json:"shard"`
	NShards     int                    `json:"nshards"`
	Evaluations int64                  `json:"evaluations"`
	Nontrivial  int64                  `json:"nontrivial"`
	States      int64                  `json:"states"`
	Transitions int64                  `json:"transitions"`
	Traces      int64                  `json:"traces"`
	Outcomes    map[string]int64       `json:"outcomes"`
	Samples     []interface{}          `json:"samples"`
	Violations  []*Violation           `json:"violations"`
	Exhaustive  bool                   `json:"exhaustive"`
	CapNotes    []string               `json:"cap_notes,omitempty"`
	Extra       map[string]interface{} `json:"extra,omitempty"`
	Sections    map[string]int64       `json:"sections,omitempty"`
	// Uniques are key -> (value, signature): vcheck reports the signature as a violation when two
	// shards disagree on the value of a key (a cross-process determinism oracle).
	Uniques    map[string][2]string `json:"uniques,omitempty"`
	HarnessErr string               `json:"harness_error,omitempty"`
	WallS      float64              `json:"wall_s"`
}

// H is the harness handle.
type H struct {
	UniqueReplay interface{} // replay case for Unique conflicts
	mu           sync.Mutex
	R            Result
	out          string
	ReplayIn     string
	Seed         int64
	deadline     time.Time
	start        time.Time
	bySig        map[string]*Violation
	sampleN      int64
	Thorough     bool
	// Quiet suppresses the coverage counters (used when several shards must
	// re-run the same cheap cases and only one may count them).
	Quiet bool
}

var (
	fTier     = flag.String("tier", "quick", "quick|thorough")
	fShard    = flag.Int("shard", 0, "shard index")
	fNShards  = flag.Int("nshards", 1, "number of shards")
	fOut      = flag.String("out", "", "result file")
	fReplay   = flag.String("replay", "", "replay file")
	fSeed     = flag.Int64("seed", 0, "seed (only rotates shard order)")
	fDeadline = flag.Int("deadline", 0, "internal deadline in seconds (0 = none)")
	fChild    = flag.String("child", "", "harness-private child mode argument")
)

// Init parses flags and returns the handle.
func Init(property string) *H {
	flag.Parse()
	h := &H{out: *fOut, ReplayIn: *fReplay, Seed: *fSeed, start: time.Now(), bySig: map[string]*Violation{}}
	h.R = Result{Property: property, Tier: *fTier, Shard: *fShard, NShards: *fNShards,
		Outcomes: map[string]int64{}, Exhaustive: true, Extra: map[string]interface{}{}, Sections: map[string]int64{}}
	h.Thorough = *fTier == "thorough"
	if *fDeadline > 0 {
		h.deadline = h.start.Add(time.Duration(*fDeadline) * time.Second)
	}
	return h
}

// Child returns the harness-private child mode argument ("" in normal runs).
func Child() string { return *fChild }

// Mine reports whether work item idx belongs to this shard.
func (h *H) Mine(idx int) bool {
	if h.R.NShards <= 1 {
		return true
	}
	return ((idx+int(h.Seed))%h.R.NShards+h.R.NShards)%h.R.NShards == h.R.Shard
}

// Eval counts one evaluated case.
func (h *H) Eval(nontrivial bool) {
	if h.Quiet {
		return
	}
	h.mu.Lock()
	h.R.Evaluations++
	if nontrivial {
		h.R.Nontrivial++
	}
	h.mu.Unlock()
}

// EvalN counts n evaluated cases of which nt are non-trivial.
func (h *H) EvalN(n, nt int64) {
	if h.Quiet {
		return
	}
	h.mu.Lock()
	h.R.Evaluations += n
	h.R.Nontrivial += nt
	h.mu.Unlock()
}

// Section counts cases per named part of the enumeration.
func (h *H) Section(name string, n int64) {
	if h.Quiet {
		return
	}
	h.mu.Lock()
	h.R.Sections[name] += n
	h.mu.Unlock()
}

func (h *H) State()      { h.mu.Lock(); h.R.States++; h.mu.Unlock() }
func (h *H) Transition() { h.mu.Lock(); h.R.Transitions++; h.mu.Unlock() }
func (h *H) Trace()      { h.mu.Lock(); h.R.Traces++; h.mu.Unlock() }

func (h *H) AddStates(n int64)      { h.mu.Lock(); h.R.States += n; h.mu.Unlock() }
func (h *H) AddTransitions(n int64) { h.mu.Lock(); h.R.Transitions += n; h.mu.Unlock() }
func (h *H) AddTraces(n int64)      { h.mu.Lock(); h.R.Traces += n; h.mu.Unlock() }

// Unique records that key must have one value over all shards.
// (h.UniqueReplay is the replay case recorded with a conflict found inside one shard.)
func (h *H) Unique(key, value, sig string) {
	h.mu.Lock()
	if h.R.Uniques == nil {
		h.R.Uniques = map[string][2]string{}
	}
	old, ok := h.R.Uniques[key]
	if !ok {
		h.R.Uniques[key] = [2]string{value, sig}
	}
	h.mu.Unlock()
	if ok && old[0] != value {
		// two different answers inside one shard are a conflict just as two shards disagreeing
		h.Violate(sig, fmt.Sprintf("%s has more than one answer: %q and %q", key, old[0], value), h.UniqueReplay)
	}
}

// Outcome counts an observed outcome class.
func (h *H) Outcome(class string) {
	if h.Quiet {
		return
	}
	h.mu.Lock()
	h.R.Outcomes[class]++
	h.mu.Unlock()
}

// Sample keeps a handful of cases, spread over the run (1st, 10th, 100th, ...).
func (h *H) Sample(mk func() interface{}) {
	if h.Quiet {
		return
	}
	h.mu.Lock()
	h.sampleN++
	n := h.sampleN
	take := false
	for p := int64(1); p <= n; p *= 7 {
		if p == n {
			take = true
		}
	}
	if take && len(h.R.Samples) < 12 {
		h.mu.Unlock()
		v := mk()
		h.mu.Lock()
		h.R.Samples = append(h.R.Samples, v)
	}
	h.mu.Unlock()
}

// Violate records a violation of class sig; replay is the case value.
func (h *H) Violate(sig, detail string, replay interface{}) {
	h.mu.Lock()
	defer h.mu.Unlock()
	if v, ok := h.bySig[sig]; ok {
		v.Count++
		return
	}
	raw, err := json.Marshal(replay)
	if err != nil {
		raw, _ = json.Marshal(fmt.Sprintf("%#v", replay))
	}
	if len(detail) > 4000 {
		detail = detail[:4000] + "…"
	}
	v := &Violation{Sig: sig, Detail: detail, Replay: raw, Count: 1}
	h.bySig[sig] = v
	h.R.Violations = append(h.R.Violations, v)
}

// NViolations returns the number of distinct signatures recorded.
func (h *H) NViolations() int {
	h.mu.Lock()
	defer h.mu.Unlock()
	return len(h.R.Violations)
}

// Expired reports whether the internal deadline passed; the run is then
// marked as not exhaustive with the given note.
func (h *H) Expired(note string) bool {
	if h.deadline.IsZero() || time.Now().Before(h.deadline) {
		return false
	}
	h.Cap(note)
	return true
}

// Deadline returns the internal deadline (zero if none).
func (h *H) Deadline() time.Time { return h.deadline }

// Cap marks the run as capped.
func (h *H) Cap(note string) {
	h.mu.Lock()
	h.R.Exhaustive = false
	for _, n := range h.R.CapNotes {
		if n == note {
			h.mu.Unlock()
			return
		}
	}
	h.R.CapNotes = append(h.R.CapNotes, note)
	h.mu.Unlock()
}

// Fatal reports a harness error (not a claim about the code) and exits 3.
func (h *H) Fatal(format string, a ...interface{}) {
	h.R.HarnessErr = fmt.Sprintf(format, a...)
	fmt.Fprintln(os.Stderr, "HARNESS ERROR:", h.R.HarnessErr)
	h.write()
	os.Exit(3)
}

func (h *H) write() {
	h.R.WallS = time.Since(h.start).Seconds()
	sort.Slice(h.R.Violations, func(i, j int) bool { return h.R.Violations[i].Sig < h.R.Violations[j].Sig })
	bs, err := json.Marshal(&h.R)
	if err != nil {
		fmt.Fprintln(os.Stderr, "cannot marshal result:", err)
		os.Exit(3)
	}
	if h.out == "" {
		os.Stdout.Write(bs)
		os.Stdout.Write([]byte("\n"))
		return
	}
	if err := os.WriteFile(h.out, bs, 0o644); err != nil {
		fmt.Fprintln(os.Stderr, "cannot write result:", err)
		os.Exit(3)
	}
}

// Done writes the result file. Exit code is 0: vcheck decides.
func (h *H) Done() {
	h.write()
}

// ReplayCase loads the case of a replay file into v; returns false if no
// replay was requested.
func (h *H) ReplayCase(v interface{}) bool {
	if h.ReplayIn == "" {
		return false
	}
	bs, err := os.ReadFile(h.ReplayIn)
	if err != nil {
		h.Fatal("cannot read replay file: %v", err)
	}
	var f struct {
		Replay json.RawMessage `json:"replay"`
	}
	if err := json.Unmarshal(bs, &f); err != nil {
		h.Fatal("cannot parse replay file: %v", err)
	}
	if err := json.Unmarshal(f.Replay, v); err != nil {
		h.Fatal("cannot parse replay case: %v", err)
	}
	return true
}

// ReplayReport prints the violations found during a replay and exits 1 if any.
func (h *H) ReplayReport() {
	if len(h.R.Violations) == 0 {
		fmt.Println("replay: no violation reproduced")
		os.Exit(0)
	}
	for _, v := range h.R.Violations {
		fmt.Printf("replay: VIOLATION reproduced sig=%s\n  %s\n", v.Sig, v.Detail)
	}
	os.Exit(1)
}

// Catch runs f and converts a panic into (true, message).
func Catch(f func()) (panicked bool, msg string) {
	defer func() {
		if r := recover(); r != nil {
			panicked = true
			msg = fmt.Sprint(r)
		}
	}()
	f()
	return
}
