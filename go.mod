module verif

go 1.19

replace github.com/SAP/go-dblib => /repo

require github.com/SAP/go-dblib v0.0.0-00010101000000-000000000000
