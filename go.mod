module verif

go 1.19

replace github.com/SAP/go-dblib => /repo

require github.com/SAP/go-dblib v0.0.0-00010101000000-000000000000

require (
	github.com/hashicorp/errwrap v1.0.0 // indirect
	github.com/hashicorp/go-multierror v1.1.1 // indirect
	github.com/hashicorp/go-version v1.7.0 // indirect
)
