#!/usr/bin/env python3
"""Runs checks against a BEHAVIOUR-PRESERVING change of the library (false-alarm test).

usage: reftest.py <PROPERTY> /verif/refactors/<id>-<n> [more property ids to run ...]

Steps (all on /repo, which must be clean; always restored afterwards):
  1. the patch applies, the tree builds, the existing test suite passes with it
  2. vcheck <PROPERTY> (quick) and the further checks with the patch applied: every one must exit 0
     without a VIOLATION line (exit 1 = false alarm, exit 2 = harness does not build against the
     refactored tree, exit 3 = harness error) - unless the change really breaks the property,
     which has to be judged by reading the violation
Results go to <dir>/meta.json.
"""
import json, os, re, shutil, subprocess, sys, time

ENV = dict(os.environ, GOFLAGS='-mod=mod', GOPROXY='off', GOSUMDB='off', GOTOOLCHAIN='local')

def sh(cmd, cwd='/repo', timeout=3600):
    p = subprocess.run(cmd, shell=True, cwd=cwd, env=ENV, stdout=subprocess.PIPE, stderr=subprocess.STDOUT, text=True, errors='replace', timeout=timeout)
    return p.returncode, p.stdout

def main():
    prop, dst = sys.argv[1], sys.argv[2].rstrip('/')
    extra = sys.argv[3:]
    rc, out = sh('git status --porcelain --untracked-files=no')
    if out.strip():
        print('/repo is not clean:', out); sys.exit(2)
    patch = os.path.join(dst, 'patch.diff')
    meta = {'property': prop, 'patch': 'patch.diff', 'ran': []}
    shutil.rmtree('/var/tmp/verif_evidence_backup', ignore_errors=True)
    shutil.copytree('/verif/evidence', '/var/tmp/verif_evidence_backup')
    try:
        rc, out = sh(f'git apply --check {patch} && git apply {patch}')
        meta['applies'] = rc == 0
        if rc != 0:
            print('patch does not apply:', out)
            json.dump(meta, open(os.path.join(dst, 'meta.json'), 'w'), indent=1); sys.exit(2)
        rc, out = sh('go build ./... && go test -vet=off -count=1 ./...')
        meta['existing_tests_pass_with_patch'] = rc == 0
        meta['ran'].append('go build ./... && go test -vet=off -count=1 ./...  (patched) -> exit %d' % rc)
        if rc != 0:
            print(out[-1500:])
        res = {}
        for pid in [prop] + extra:
            t0 = time.time()
            rc, out = sh(f'./bin/vcheck {pid} --tier quick', cwd='/verif', timeout=3600)
            sigs = re.findall(r'sig=(\S+)', out)
            known = out.count('KNOWN-FINDING')
            res[pid] = {'exit': rc, 'violation_lines': out.count('VIOLATION property='), 'sigs': sigs[:8], 'wall_s': round(time.time() - t0, 1)}
            meta['ran'].append(f'./bin/vcheck {pid} --tier quick  (patched) -> exit {rc}')
            print(pid, 'exit', rc, 'violations', out.count('VIOLATION property='), [s for s in sigs[:6]])
            if rc != 0:
                # keep the explanation of the first violations for the judgement
                lines = out.splitlines()
                keep = [l for l in lines if l.startswith('VIOLATION') or l.startswith('  ') or 'HARNESS' in l or 'BUILD FAILED' in l][:14]
                res[pid]['detail'] = [l[:600] for l in keep]
                print('\n'.join(l[:400] for l in keep[:8]))
        meta['checks'] = res
        meta['alarms'] = [p for p, c in res.items() if c['exit'] != 0]
    finally:
        sh('git checkout -- .')
        shutil.rmtree('/verif/evidence', ignore_errors=True)
        shutil.copytree('/var/tmp/verif_evidence_backup', '/verif/evidence')
        shutil.rmtree('/var/tmp/verif_evidence_backup', ignore_errors=True)
        shutil.rmtree('/verif/replays', ignore_errors=True)
    notes = os.path.join(dst, 'notes.txt')
    if os.path.exists(notes):
        meta['what'] = open(notes).read()[:1500]
    json.dump(meta, open(os.path.join(dst, 'meta.json'), 'w'), indent=1)

main()
