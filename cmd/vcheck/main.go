// vcheck is the orchestrator behind every MANIFEST command.
//
//	vcheck <ID> [--tier quick|thorough]     run the check for one property
//	vcheck replay <file>                    re-execute one recorded violation
//
// It (re)builds the harness for the property from /repo's current working
// tree (instrumenting it first where the property needs the controlled
// scheduler), runs it sharded over worker processes, merges their results,
// matches violations against known_findings.txt, writes evidence/<ID>.json
// and replays/<ID>/*.json and sets the exit code:
//
//	0 property held on everything explored (known findings are printed)
//	1 VIOLATION line printed
//	2 build / instrumentation failure
//	3 harness error (nondeterminism, worker death without attribution, ...)
package main

import (
	"bufio"
	"crypto/sha1"
	"encoding/hex"
	"encoding/json"
	"fmt"
	"os"
	"os/exec"
	"path/filepath"
	"sort"
	"strconv"
	"strings"
	"sync"
	"time"

	"verif/hlib"
)

type tierCfg struct {
	Shards   int
	Deadline int // seconds handed to the harness (-deadline); 0 = none
}

type propCfg struct {
	ID       string
	Harness  string // directory under harness/
	Instr    string // "" = not instrumented, else comma list of repo packages (".", "tds", "namepool")
	Acc      bool   // also instrument field accesses for the happens-before race detector
	Quick    tierCfg
	Thorough tierCfg
	Rule     string
	Assume   []string
}

var verifRoot string

func env() []string {
	e := os.Environ()
	e = append(e, "GOFLAGS=-mod=mod", "GOPROXY=off", "GOSUMDB=off", "GOTOOLCHAIN=local")
	return e
}

func repoRoot() string {
	if r := os.Getenv("VERIF_REPO"); r != "" {
		return r
	}
	return "/repo"
}

func main() {
	exe, _ := os.Executable()
	verifRoot = filepath.Dir(filepath.Dir(exe))
	if _, err := os.Stat(filepath.Join(verifRoot, "MANIFEST.json")); err != nil {
		verifRoot, _ = os.Getwd()
	}
	args := os.Args[1:]
	if len(args) == 0 {
		fmt.Fprintln(os.Stderr, "usage: vcheck <ID> [--tier quick|thorough] | vcheck replay <file> | vcheck list")
		os.Exit(3)
	}
	switch args[0] {
	case "replay":
		if len(args) < 2 {
			fmt.Fprintln(os.Stderr, "usage: vcheck replay <file>")
			os.Exit(3)
		}
		os.Exit(doReplay(args[1]))
	case "list":
		for _, p := range props {
			fmt.Println(p.ID, p.Harness, p.Instr)
		}
		return
	case "prebuild":
		os.Exit(doPrebuild())
	case "shimconf":
		os.Exit(doShimconf(args[1:]))
	}
	id := args[0]
	tier := os.Getenv("VERIF_TIER")
	if tier == "" {
		tier = "quick"
	}
	for i := 1; i < len(args); i++ {
		if args[i] == "--tier" && i+1 < len(args) {
			tier = args[i+1]
			i++
		} else if strings.HasPrefix(args[i], "--tier=") {
			tier = strings.TrimPrefix(args[i], "--tier=")
		}
	}
	if tier != "quick" && tier != "thorough" {
		fmt.Fprintln(os.Stderr, "bad tier", tier)
		os.Exit(3)
	}
	p := lookup(id)
	if p == nil {
		fmt.Fprintln(os.Stderr, "unknown property", id)
		os.Exit(3)
	}
	os.Exit(doCheck(p, tier))
}

func lookup(id string) *propCfg {
	for i := range props {
		if props[i].ID == id {
			return &props[i]
		}
	}
	return nil
}

func scratchDir() (string, error) {
	base := os.Getenv("VERIF_SCRATCH")
	if base == "" {
		base = "/var/tmp"
	}
	return os.MkdirTemp(base, "verif.")
}

// build builds the harness of p into dir and returns the binary path.
func build(p *propCfg, dir string, race bool) (string, int) {
	bin := filepath.Join(dir, "h_"+p.ID)
	args := []string{"build"}
	if p.Instr != "" {
		mode := "explore"
		if race {
			mode = "race"
		}
		ov := filepath.Join(dir, "overlay.json")
		cmd := exec.Command(filepath.Join(verifRoot, "bin", "vinstr"),
			"-repo", repoRoot(), "-pkgs", p.Instr, "-mode", mode, "-out", filepath.Join(dir, "instr"),
			"-overlay", ov, "-vrt", filepath.Join(verifRoot, "engine", "vrt"), fmt.Sprintf("-acc=%v", p.Acc))
		cmd.Env = env()
		cmd.Dir = repoRoot()
		out, err := cmd.CombinedOutput()
		if err != nil {
			fmt.Fprintf(os.Stderr, "vinstr failed: %v\n%s\n", err, out)
			return "", 2
		}
		args = append(args, "-overlay", ov, "-tags", "vrt")
	}
	if race {
		args = append(args, "-race")
		bin += "_race"
	}
	if r := repoRoot(); r != "/repo" {
		// development aid (never used by the registered commands): check a scratch copy of the
		// repository without touching /repo, through an alternative go.mod
		gm, err := os.ReadFile(filepath.Join(verifRoot, "go.mod"))
		if err != nil {
			fmt.Fprintln(os.Stderr, err)
			return "", 3
		}
		alt := filepath.Join(dir, "alt.mod")
		os.WriteFile(alt, []byte(strings.Replace(string(gm), "=> /repo", "=> "+r, 1)), 0o644)
		if sum, err := os.ReadFile(filepath.Join(verifRoot, "go.sum")); err == nil {
			os.WriteFile(filepath.Join(dir, "alt.sum"), sum, 0o644)
		}
		args = append(args, "-modfile", alt)
	}
	args = append(args, "-o", bin, "./harness/"+p.Harness)
	cmd := exec.Command("go", args...)
	cmd.Env = env()
	cmd.Dir = verifRoot
	out, err := cmd.CombinedOutput()
	if err != nil {
		fmt.Fprintf(os.Stderr, "BUILD FAILED for %s (tree does not compile against the harness):\n%s\n", p.ID, out)
		return "", 2
	}
	return bin, 0
}

// doShimconf builds and runs the shim conformance self-test (DESIGN.md §4).
func doShimconf(extra []string) int {
	dir, err := scratchDir()
	if err != nil {
		fmt.Fprintln(os.Stderr, err)
		return 3
	}
	defer os.RemoveAll(dir)
	p := &propCfg{ID: "SHIMCONF", Harness: "shimconf", Instr: "namepool"}
	bin, rc := build(p, dir, false)
	if rc != 0 {
		return rc
	}
	cmd := exec.Command(bin, extra...)
	cmd.Env = env()
	cmd.Stdout, cmd.Stderr = os.Stdout, os.Stderr
	if err := cmd.Run(); err != nil {
		return 1
	}
	return 0
}

func doPrebuild() int {
	dir, err := scratchDir()
	if err != nil {
		fmt.Fprintln(os.Stderr, err)
		return 3
	}
	defer os.RemoveAll(dir)
	rc := 0
	for i := range props {
		if _, c := build(&props[i], dir, false); c != 0 {
			rc = c
		}
	}
	return rc
}

type finding struct {
	Status, Property, Sig, Commit, What string
}

func loadFindings() []finding {
	var fs []finding
	f, err := os.Open(filepath.Join(verifRoot, "known_findings.txt"))
	if err != nil {
		return nil
	}
	defer f.Close()
	sc := bufio.NewScanner(f)
	sc.Buffer(make([]byte, 1<<20), 1<<20)
	for sc.Scan() {
		line := strings.TrimSpace(sc.Text())
		if line == "" || strings.HasPrefix(line, "#") {
			continue
		}
		var fd finding
		switch {
		case strings.HasPrefix(line, "known:"):
			fd.Status = "known"
			line = strings.TrimSpace(strings.TrimPrefix(line, "known:"))
		case strings.HasPrefix(line, "fixed:"):
			fd.Status = "fixed"
			line = strings.TrimSpace(strings.TrimPrefix(line, "fixed:"))
		default:
			continue
		}
		fields := strings.Fields(line)
		rest := []string{}
		for _, w := range fields {
			switch {
			case strings.HasPrefix(w, "property=") && fd.Property == "":
				fd.Property = strings.TrimPrefix(w, "property=")
			case strings.HasPrefix(w, "sig=") && fd.Sig == "":
				fd.Sig = strings.TrimPrefix(w, "sig=")
			case strings.HasPrefix(w, "commit=") && fd.Commit == "":
				fd.Commit = strings.TrimPrefix(w, "commit=")
			default:
				rest = append(rest, w)
			}
		}
		fd.What = strings.Join(rest, " ")
		fs = append(fs, fd)
	}
	return fs
}

func sigMatch(pattern, sig string) bool {
	if strings.HasSuffix(pattern, "*") {
		return strings.HasPrefix(sig, strings.TrimSuffix(pattern, "*"))
	}
	return pattern == sig
}

func doCheck(p *propCfg, tier string) int {
	start := time.Now()
	seed := int64(0)
	if s := os.Getenv("VERIF_SEED"); s != "" {
		if v, err := strconv.ParseInt(s, 10, 64); err == nil {
			seed = v
		}
	}
	evPath := filepath.Join(verifRoot, "evidence", p.ID+".json")
	if d := os.Getenv("VERIF_EVIDENCE_DIR"); d != "" && os.Getenv("VERIF_REPO") != "" {
		// a run against a scratch copy of the repository (development only) leaves the committed evidence alone
		os.MkdirAll(d, 0o755)
		evPath = filepath.Join(d, p.ID+".json")
	}
	os.Remove(evPath)
	dir, err := scratchDir()
	if err != nil {
		fmt.Fprintln(os.Stderr, err)
		return 3
	}
	defer os.RemoveAll(dir)
	bin, rc := build(p, dir, false)
	if rc != 0 {
		return rc
	}
	tc := p.Quick
	if tier == "thorough" {
		tc = p.Thorough
	}
	if tc.Shards <= 0 {
		tc.Shards = 1
	}
	results := make([]*hlib.Result, tc.Shards)
	errs := make([]string, tc.Shards)
	var wg sync.WaitGroup
	sem := make(chan struct{}, 16)
	for i := 0; i < tc.Shards; i++ {
		wg.Add(1)
		go func(i int) {
			defer wg.Done()
			sem <- struct{}{}
			defer func() { <-sem }()
			out := filepath.Join(dir, fmt.Sprintf("res_%d.json", i))
			args := []string{"-tier", tier, "-shard", strconv.Itoa(i), "-nshards", strconv.Itoa(tc.Shards),
				"-out", out, "-seed", strconv.FormatInt(seed, 10)}
			if tc.Deadline > 0 {
				args = append(args, "-deadline", strconv.Itoa(tc.Deadline))
			}
			// ulimit -v guards against runaway allocation taking the sandbox down
			sh := fmt.Sprintf("ulimit -v %d; exec %s %s", 24*1024*1024, bin, strings.Join(args, " "))
			cmd := exec.Command("/bin/sh", "-c", sh)
			cmd.Env = append(env(), "VERIF_ROOT="+verifRoot, "VERIF_SCRATCH_DIR="+dir)
			cmd.Dir = verifRoot
			logf, _ := os.Create(filepath.Join(dir, fmt.Sprintf("log_%d.txt", i)))
			cmd.Stdout = logf
			cmd.Stderr = logf
			done := make(chan error, 1)
			if err := cmd.Start(); err != nil {
				errs[i] = "cannot start worker: " + err.Error()
				return
			}
			go func() { done <- cmd.Wait() }()
			hard := time.Duration(0)
			if tc.Deadline > 0 {
				hard = time.Duration(tc.Deadline+120) * time.Second
			} else {
				hard = 6 * time.Hour
			}
			var werr error
			select {
			case werr = <-done:
			case <-time.After(hard):
				// the worker stops by itself at its deadline; if this timer fired because the machine
				// was paused, the worker notices the same jump of the clock and ends at its next check
				select {
				case werr = <-done:
				case <-time.After(90 * time.Second):
					cmd.Process.Kill()
					werr = fmt.Errorf("worker exceeded hard limit %v", hard)
					<-done
				}
			}
			logf.Close()
			bs, rerr := os.ReadFile(out)
			if rerr == nil {
				var r hlib.Result
				if jerr := json.Unmarshal(bs, &r); jerr == nil {
					results[i] = &r
				} else {
					errs[i] = "bad result file: " + jerr.Error()
				}
			}
			if werr != nil || results[i] == nil {
				lg, _ := os.ReadFile(filepath.Join(dir, fmt.Sprintf("log_%d.txt", i)))
				tail := string(lg)
				if i := strings.Index(tail, "fatal error"); i >= 0 {
					tail = tail[i:]
				} else if i := strings.Index(tail, "panic:"); i >= 0 {
					tail = tail[i:]
				}
				if len(tail) > 1500 {
					tail = tail[:1500]
				}
				errs[i] = fmt.Sprintf("worker %d failed: %v\n%s", i, werr, tail)
			}
		}(i)
	}
	wg.Wait()

	harnessErr := ""
	for i, e := range errs {
		if e != "" {
			harnessErr += e + "\n"
		}
		if results[i] != nil && results[i].HarnessErr != "" {
			harnessErr += results[i].HarnessErr + "\n"
		}
	}

	// merge
	m := hlib.Result{Property: p.ID, Tier: tier, Outcomes: map[string]int64{}, Exhaustive: true,
		Extra: map[string]interface{}{}, Sections: map[string]int64{}}
	vio := map[string]*hlib.Violation{}
	uniq := map[string][2]string{}
	for _, r := range results {
		if r != nil {
			for k, v := range r.Uniques {
				if o, ok := uniq[k]; ok && o[0] != v[0] {
					if _, dup := vio[v[1]]; !dup {
						raw, _ := json.Marshal(map[string]string{"key": k})
						vio[v[1]] = &hlib.Violation{Sig: v[1], Detail: fmt.Sprintf("%s has the value %q in one worker process and %q in another", k, o[0], v[0]), Replay: raw, Count: 1}
					}
				} else if !ok {
					uniq[k] = v
				}
			}
		}
		if r == nil {
			m.Exhaustive = false
			continue
		}
		m.Evaluations += r.Evaluations
		m.Nontrivial += r.Nontrivial
		m.States += r.States
		m.Transitions += r.Transitions
		m.Traces += r.Traces
		for k, v := range r.Outcomes {
			m.Outcomes[k] += v
		}
		for k, v := range r.Sections {
			m.Sections[k] += v
		}
		for k, v := range r.Extra {
			if _, ok := m.Extra[k]; !ok {
				m.Extra[k] = v
			}
		}
		if len(m.Samples) < 10 {
			for _, s := range r.Samples {
				if len(m.Samples) < 10 {
					m.Samples = append(m.Samples, s)
				}
			}
		}
		if !r.Exhaustive {
			m.Exhaustive = false
		}
		for _, c := range r.CapNotes {
			dup := false
			for _, d := range m.CapNotes {
				if d == c {
					dup = true
				}
			}
			if !dup {
				m.CapNotes = append(m.CapNotes, c)
			}
		}
		for _, v := range r.Violations {
			if o, ok := vio[v.Sig]; ok {
				o.Count += v.Count
			} else {
				vio[v.Sig] = v
			}
		}
	}

	findings := loadFindings()
	sigs := make([]string, 0, len(vio))
	for s := range vio {
		sigs = append(sigs, s)
	}
	sort.Strings(sigs)
	exit := 0
	nViol := 0
	knownPrinted := map[string]bool{}
	var knownList []string
	for _, s := range sigs {
		v := vio[s]
		matched := false
		for _, f := range findings {
			if f.Status == "known" && f.Property == p.ID && sigMatch(f.Sig, s) {
				matched = true
				key := f.Sig
				if !knownPrinted[key] {
					knownPrinted[key] = true
					fmt.Printf("KNOWN-FINDING: property=%s %s [sig=%s]\n", p.ID, f.What, f.Sig)
					knownList = append(knownList, f.Sig)
				}
				break
			}
		}
		if matched {
			continue
		}
		nViol++
		h := sha1.Sum([]byte(s))
		rp := filepath.Join(verifRoot, "replays", p.ID, hex.EncodeToString(h[:6])+".json")
		os.MkdirAll(filepath.Dir(rp), 0o755)
		rec := map[string]interface{}{"property": p.ID, "sig": v.Sig, "detail": v.Detail, "count": v.Count, "tier": tier, "replay": v.Replay}
		bs, _ := json.MarshalIndent(rec, "", " ")
		os.WriteFile(rp, bs, 0o644)
		fmt.Printf("VIOLATION property=%s replay=%s\n", p.ID, rp)
		fmt.Printf("  sig=%s count=%d\n  %s\n", v.Sig, v.Count, strings.ReplaceAll(v.Detail, "\n", "\n  "))
		exit = 1
	}

	// evidence
	states, transitions, traces := m.States, m.Transitions, m.Traces
	if states == 0 {
		states = m.Evaluations
	}
	if transitions == 0 {
		transitions = m.Evaluations
	}
	if traces == 0 {
		traces = m.Evaluations
	}
	samples := m.Samples
	if len(samples) == 0 {
		samples = []interface{}{"(no sample recorded)"}
	}
	cov := map[string]interface{}{
		"states":                        states,
		"transitions":                   transitions,
		"traces_validated_against_impl": traces,
		"samples":                       samples,
		"evaluations":                   m.Evaluations,
		"distinct_nontrivial":           m.Nontrivial,
		"rule":                          p.Rule,
		"exhaustive":                    m.Exhaustive && harnessErr == "",
		"distinct_outcomes":             len(m.Outcomes),
		"outcomes":                      m.Outcomes,
		"sections":                      m.Sections,
		"shards":                        tc.Shards,
		"known_findings_matched":        knownList,
	}
	if len(m.CapNotes) > 0 {
		cov["caps_hit"] = m.CapNotes
	}
	for k, v := range m.Extra {
		cov[k] = v
	}
	if len(m.Outcomes) == 1 && m.Evaluations > 1 {
		cov["vacuity_warning"] = "a single outcome class was observed over all executions"
	}
	if harnessErr != "" {
		cov["harness_error"] = harnessErr
	}
	ev := map[string]interface{}{
		"property_id": p.ID,
		"tier":        tier,
		"seed":        seed,
		"level":       "model_checking",
		"coverage":    cov,
		"assumptions": p.Assume,
		"wall_s":      time.Since(start).Seconds(),
		"violations":  nViol,
	}
	bs, _ := json.MarshalIndent(ev, "", " ")
	os.MkdirAll(filepath.Dir(evPath), 0o755)
	if err := os.WriteFile(evPath, bs, 0o644); err != nil {
		fmt.Fprintln(os.Stderr, "cannot write evidence:", err)
		return 3
	}
	fmt.Printf("%s tier=%s evaluations=%d nontrivial=%d states=%d transitions=%d outcomes=%d exhaustive=%v violations=%d known=%d wall=%.1fs\n",
		p.ID, tier, m.Evaluations, m.Nontrivial, states, transitions, len(m.Outcomes), m.Exhaustive && harnessErr == "", nViol, len(knownList), time.Since(start).Seconds())
	if exit == 1 {
		return 1
	}
	if harnessErr != "" {
		fmt.Fprintln(os.Stderr, "HARNESS ERROR:\n"+harnessErr)
		return 3
	}
	return 0
}

func doReplay(path string) int {
	bs, err := os.ReadFile(path)
	if err != nil {
		fmt.Fprintln(os.Stderr, err)
		return 3
	}
	var rec struct {
		Property string `json:"property"`
	}
	if err := json.Unmarshal(bs, &rec); err != nil {
		fmt.Fprintln(os.Stderr, err)
		return 3
	}
	p := lookup(rec.Property)
	if p == nil {
		fmt.Fprintln(os.Stderr, "unknown property in replay file:", rec.Property)
		return 3
	}
	dir, err := scratchDir()
	if err != nil {
		fmt.Fprintln(os.Stderr, err)
		return 3
	}
	defer os.RemoveAll(dir)
	bin, rc := build(p, dir, false)
	if rc != 0 {
		return rc
	}
	abs, _ := filepath.Abs(path)
	cmd := exec.Command(bin, "-replay", abs)
	cmd.Env = append(env(), "VERIF_ROOT="+verifRoot, "VERIF_SCRATCH_DIR="+dir)
	cmd.Dir = verifRoot
	cmd.Stdout = os.Stdout
	cmd.Stderr = os.Stderr
	if err := cmd.Run(); err != nil {
		if ee, ok := err.(*exec.ExitError); ok {
			return ee.ExitCode()
		}
		return 3
	}
	return 0
}
