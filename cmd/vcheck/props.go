package main

var props = []propCfg{
	{ID: "C16", Harness: "c16", Quick: tierCfg{Shards: 8, Deadline: 240}, Thorough: tierCfg{Shards: 16, Deadline: 1200},
		Rule: "all 741 (p,s) pairs x boundary unscaled integers {0,+-1,10^k,10^k+-1,ramps, all <=3-digit ints} x ~18 spellings each, plus the constructor grid -2..41 squared; every case runs NewDecimal/String/SetString of the real asetypes.Decimal and is compared with math/big; cases are distinct by construction; non-trivial = value != 0 (fmt/parse) or invalid pair (ctor)",
		Assume: []string{"math/big is correct", "values beyond the boundary grid are not enumerated (declared grid)"}},
}
