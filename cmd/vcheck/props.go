package main

var props = []propCfg{
	{ID: "C16", Harness: "c16", Quick: tierCfg{Shards: 8, Deadline: 240}, Thorough: tierCfg{Shards: 16, Deadline: 1200},
		Rule: "all 741 (p,s) pairs x boundary unscaled integers {0,+-1,10^k,10^k+-1,ramps, all <=3-digit ints} x ~18 spellings each, plus the constructor grid -2..41 squared; every case runs NewDecimal/String/SetString of the real asetypes.Decimal and is compared with math/big; cases are distinct by construction; non-trivial = value != 0 (fmt/parse) or invalid pair (ctor)",
		Assume: []string{"math/big is correct", "values beyond the boundary grid are not enumerated (declared grid)"}},
	{ID: "C19", Harness: "c19", Quick: tierCfg{Shards: 16, Deadline: 240}, Thorough: tierCfg{Shards: 16, Deadline: 1500},
		Rule: "all lists of 0..2 ranges over 14 bounds (12 semantic versions incl. pre-release/build, empty, unparsable) x 15 versions x all permutations; all multisets of 3 ranges (thorough: 4) over a 5(4)-bound sub-grid x 8 versions x all permutations; 81 ordered pairs of capabilities; an integer comparer as custom comparer; each case builds a real capability.Target and calls Version/Has; oracle = interval membership on an independently parsed semver; non-trivial = at least one range",
		Assume: []string{"the reference semver parser implements semver.org precedence", "both-bounds-empty ranges are UNSPECIFIED (statement is contradictory there)", "an ill-formed range next to a containing range may or may not be evaluated"}},
	{ID: "C17", Harness: "c17", Quick: tierCfg{Shards: 16, Deadline: 300}, Thorough: tierCfg{Shards: 16, Deadline: 2400},
		Rule: "totality: every string of length <=6 (thorough <=7) over the 13 symbols a = space ' \" \\ : / ? & % @ # through Parse, ParseURI and ParseSimple into a tds.Info-like struct (and <=5/6 into dsn.Info); round trip: every field of dsn.Info, tds.Info and a local struct (embedded + nested struct, aliases, int, bool) set to every value of a 33-string (URI: 45) boundary set, all single and pairwise deviations, FormatURI->ParseURI and FormatSimple->ParseSimple; every ordered pair of names of one field (override); unknown keys; non-trivial = input contains a quote or '=' (totality) / at least one deviating field",
		Assume: []string{"URI form: host and port restricted to plain values (statement quantifies over user, password, database and additional properties)", "URI form: winner between different aliases of one field is UNSPECIFIED", "simple form values exclude quotes, backslashes and control characters as in the statement"}},
}
