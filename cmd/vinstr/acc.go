package main

import (
	"fmt"
	"go/ast"
	"go/token"
	"go/types"
	"path/filepath"
)

// accInstrument inserts vrt.AccF / vrt.AccMap calls in front of every
// statement (of a statement list) that reads or writes a field of a struct
// type declared in the instrumented package, a package-level variable, or a
// map held in such a field.

type accRef struct {
	expr  ast.Expr
	write bool
	isMap bool
}

func (f *fileCtx) accInstrument() {
	ast.Inspect(f.file, func(n ast.Node) bool {
		switch x := n.(type) {
		case *ast.BlockStmt:
			f.accList(x.List)
		case *ast.CaseClause:
			f.accList(x.Body)
		case *ast.CommClause:
			f.accList(x.Body)
		}
		return true
	})
}

func (f *fileCtx) accList(list []ast.Stmt) {
	for _, st := range list {
		if ls, ok := st.(*ast.LabeledStmt); ok {
			st = ls.Stmt
			_ = st
			continue // cannot insert between label and statement safely
		}
		refs := f.collect(st)
		if len(refs) == 0 {
			continue
		}
		pos := f.fset.Position(st.Pos())
		where := fmt.Sprintf("%s:%d", filepath.Base(pos.Filename), pos.Line)
		text := ""
		seen := map[string]bool{}
		for _, r := range refs {
			src := f.text(r.expr)
			key := fmt.Sprintf("%s|%v|%v", src, r.write, r.isMap)
			if seen[key] {
				continue
			}
			seen[key] = true
			w := "false"
			if r.write {
				w = "true"
			}
			if r.isMap {
				text += fmt.Sprintf("vrt.AccMap(func() interface{} { return %s }, %s, %q); ", src, w, where+" "+src)
			} else {
				text += fmt.Sprintf("vrt.AccF(func() vrtunsafe.Pointer { return vrtunsafe.Pointer(&%s) }, %s, %q); ", src, w, where+" "+src)
			}
		}
		f.ins(st.Pos(), text)
	}
}

// headExprs returns the expressions evaluated when the statement starts,
// without the nested statement lists.
func headExprs(st ast.Stmt) (exprs []ast.Node, lhs []ast.Expr) {
	switch x := st.(type) {
	case *ast.ExprStmt:
		exprs = append(exprs, x.X)
	case *ast.AssignStmt:
		for _, e := range x.Rhs {
			exprs = append(exprs, e)
		}
		for _, e := range x.Lhs {
			exprs = append(exprs, e)
			lhs = append(lhs, e)
		}
	case *ast.IncDecStmt:
		exprs = append(exprs, x.X)
		lhs = append(lhs, x.X)
	case *ast.ReturnStmt:
		for _, e := range x.Results {
			exprs = append(exprs, e)
		}
	case *ast.SendStmt:
		exprs = append(exprs, x.Chan, x.Value)
	case *ast.GoStmt:
		exprs = append(exprs, x.Call)
	case *ast.DeferStmt:
		exprs = append(exprs, x.Call)
	case *ast.IfStmt:
		if x.Init != nil {
			e, l := headExprs(x.Init)
			exprs = append(exprs, e...)
			lhs = append(lhs, l...)
		}
		exprs = append(exprs, x.Cond)
	case *ast.ForStmt:
		if x.Init != nil {
			e, l := headExprs(x.Init)
			exprs = append(exprs, e...)
			lhs = append(lhs, l...)
		}
		if x.Cond != nil {
			exprs = append(exprs, x.Cond)
		}
	case *ast.RangeStmt:
		exprs = append(exprs, x.X)
	case *ast.SwitchStmt:
		if x.Init != nil {
			e, l := headExprs(x.Init)
			exprs = append(exprs, e...)
			lhs = append(lhs, l...)
		}
		if x.Tag != nil {
			exprs = append(exprs, x.Tag)
		}
	case *ast.TypeSwitchStmt:
		if x.Init != nil {
			e, l := headExprs(x.Init)
			exprs = append(exprs, e...)
			lhs = append(lhs, l...)
		}
		e, l := headExprs(x.Assign)
		exprs = append(exprs, e...)
		_ = l
	case *ast.DeclStmt:
		if gd, ok := x.Decl.(*ast.GenDecl); ok {
			for _, sp := range gd.Specs {
				if vs, ok := sp.(*ast.ValueSpec); ok {
					for _, v := range vs.Values {
						exprs = append(exprs, v)
					}
				}
			}
		}
	}
	return
}

func (f *fileCtx) collect(st ast.Stmt) []accRef {
	exprs, lhs := headExprs(st)
	isLHS := map[ast.Expr]bool{}
	for _, l := range lhs {
		for {
			if p, ok := l.(*ast.ParenExpr); ok {
				l = p.X
				continue
			}
			break
		}
		isLHS[l] = true
	}
	var refs []accRef
	stPos := st.Pos()
	visible := func(e ast.Expr) bool {
		// root identifier must be declared before the statement (or at package level)
		for {
			switch x := e.(type) {
			case *ast.SelectorExpr:
				e = x.X
				continue
			case *ast.StarExpr:
				e = x.X
				continue
			case *ast.ParenExpr:
				e = x.X
				continue
			}
			break
		}
		id, ok := e.(*ast.Ident)
		if !ok {
			return false
		}
		obj := f.info.Uses[id]
		if obj == nil {
			return false
		}
		if obj.Parent() == f.pkg.Scope() || obj.Parent() == types.Universe {
			return true
		}
		return obj.Pos() < stPos
	}
	chainPure := func(e ast.Expr) bool {
		for {
			switch x := e.(type) {
			case *ast.SelectorExpr:
				e = x.X
				continue
			case *ast.StarExpr:
				e = x.X
				continue
			case *ast.ParenExpr:
				e = x.X
				continue
			case *ast.Ident:
				return true
			}
			return false
		}
	}
	for _, root := range exprs {
		ast.Inspect(root, func(n ast.Node) bool {
			switch x := n.(type) {
			case *ast.FuncLit:
				return false
			case *ast.SelectorExpr:
				sel := f.info.Selections[x]
				if sel == nil || sel.Kind() != types.FieldVal {
					return true
				}
				// struct declared in this package?
				recv := sel.Recv()
				if p, ok := recv.(*types.Pointer); ok {
					recv = p.Elem()
				}
				nt, ok := recv.(*types.Named)
				if !ok || nt.Obj().Pkg() != f.pkg {
					return true
				}
				ft := sel.Type()
				if _, isStruct := ft.Underlying().(*types.Struct); isStruct {
					return true // address computation, not an access
				}
				if !chainPure(x) || !visible(x) {
					return true
				}
				// do not report fields of addressable temporaries such as x.f of a value method result
				if tv, ok := f.info.Types[x]; ok && !tv.Addressable() {
					return true
				}
				refs = append(refs, accRef{expr: x, write: isLHS[ast.Expr(x)]})
			case *ast.IndexExpr:
				if isMap(f.info.TypeOf(x.X)) && chainPure(x.X) && visible(x.X) {
					if _, isSel := x.X.(*ast.SelectorExpr); isSel || f.pkgVar(x.X) {
						refs = append(refs, accRef{expr: x.X, write: isLHS[ast.Expr(x)], isMap: true})
					}
				}
			case *ast.CallExpr:
				if id, ok := x.Fun.(*ast.Ident); ok && (id.Name == "delete" || id.Name == "len") && len(x.Args) >= 1 {
					if _, b := f.info.Uses[id].(*types.Builtin); b && isMap(f.info.TypeOf(x.Args[0])) && chainPure(x.Args[0]) && visible(x.Args[0]) {
						refs = append(refs, accRef{expr: x.Args[0], write: id.Name == "delete", isMap: true})
					}
				}
			case *ast.Ident:
				if f.pkgVar(x) {
					if v, ok := f.info.Uses[x].(*types.Var); ok {
						if _, isStruct := v.Type().Underlying().(*types.Struct); !isStruct {
							refs = append(refs, accRef{expr: x, write: isLHS[ast.Expr(x)]})
						}
					}
				}
			}
			return true
		})
	}
	if rs, ok := st.(*ast.RangeStmt); ok && isMap(f.info.TypeOf(rs.X)) && chainPure(rs.X) && visible(rs.X) {
		refs = append(refs, accRef{expr: rs.X, isMap: true})
	}
	return refs
}

func (f *fileCtx) pkgVar(e ast.Expr) bool {
	id, ok := e.(*ast.Ident)
	if !ok {
		return false
	}
	v, ok := f.info.Uses[id].(*types.Var)
	if !ok || v.IsField() {
		return false
	}
	return v.Parent() == f.pkg.Scope()
}

var _ = token.NoPos
