// vinstr rewrites packages of go-dblib for the controlled runtime (vrt) and
// writes a `go build -overlay` file. It never touches /repo: rewritten files
// go to -out, and the vrt runtime is mapped into the module as the virtual
// package github.com/SAP/go-dblib/vrt.
//
// Rewrites (syntax directed, type information only where needed):
//
//	import "sync" / "sync/atomic"        -> vrt/vsync, vrt/vatomic (same API)
//	net.Dial, crypto/rand.Reader|Read,
//	context.WithTimeout|WithDeadline,
//	time.Now|Sleep                       -> vrt seams
//	go f(x)                              -> vrt.Go(func() { f(x) })
//	ch <- v                              -> vrt.BeforeSend(ch); ch <- v
//	<-ch (also v, ok := <-ch)            -> vrt.Recv(ch) / vrt.Recv2(ch)
//	close(ch)                            -> vrt.Close(ch)
//	select { case comm: ... }            -> switch vrt.Select(hasDefault, vrt.R(c)...) { case i: comm; ... }
//	for k, v := range m (m a map)        -> for _, k := range vrt.Keys(m) { v := m[k]; ... }
//	(mode explore, -acc) statements touching fields of package-declared
//	structs / package variables          -> preceded by vrt.Acc(...)
//
// mode race: only the environment seams (Dial, rand) are redirected.
package main

import (
	"bytes"
	"encoding/json"
	"flag"
	"fmt"
	"go/ast"
	"go/importer"
	"go/parser"
	"go/token"
	"go/types"
	"os"
	"path/filepath"
	"sort"
	"strings"
)

const vrtPath = "github.com/SAP/go-dblib/vrt"

type edit struct {
	off, del int
	text     string
	seq      int
}

type fileCtx struct {
	fset    *token.FileSet
	file    *ast.File
	src     []byte
	edits   []edit
	info    *types.Info
	pkg     *types.Package
	mode    string
	acc     bool
	accPts  map[string]bool
	usedPkg map[string]bool // local import names that got a selector rewritten
	name    string
	failed  []string
}

func (f *fileCtx) off(p token.Pos) int { return f.fset.Position(p).Offset }

func (f *fileCtx) ins(p token.Pos, text string) {
	f.edits = append(f.edits, edit{off: f.off(p), text: text, seq: len(f.edits)})
}

func (f *fileCtx) repl(from, to token.Pos, text string) {
	f.edits = append(f.edits, edit{off: f.off(from), del: f.off(to) - f.off(from), text: text, seq: len(f.edits)})
}

func (f *fileCtx) text(n ast.Node) string { return string(f.src[f.off(n.Pos()):f.off(n.End())]) }

func (f *fileCtx) unsupported(n ast.Node, what string) {
	f.failed = append(f.failed, fmt.Sprintf("%s: unsupported construct: %s", f.fset.Position(n.Pos()), what))
}

func (f *fileCtx) apply() []byte {
	sort.SliceStable(f.edits, func(i, j int) bool {
		if f.edits[i].off != f.edits[j].off {
			return f.edits[i].off > f.edits[j].off
		}
		// same offset: replacements are applied before insertions (so that an insertion ends
		// up in front of the replaced text); insertions keep their order of creation, i.e.
		// the later one must be applied first so that it ends up after the earlier one
		if (f.edits[i].del > 0) != (f.edits[j].del > 0) {
			return f.edits[i].del > 0
		}
		return f.edits[i].seq > f.edits[j].seq
	})
	out := append([]byte{}, f.src...)
	for _, e := range f.edits {
		out = append(out[:e.off], append([]byte(e.text), out[e.off+e.del:]...)...)
	}
	return out
}

func (f *fileCtx) pkgOf(x ast.Expr) string {
	id, ok := x.(*ast.Ident)
	if !ok {
		return ""
	}
	if pn, ok := f.info.Uses[id].(*types.PkgName); ok {
		return pn.Imported().Path()
	}
	return ""
}

func isChan(t types.Type) bool {
	if t == nil {
		return false
	}
	_, ok := t.Underlying().(*types.Chan)
	return ok
}

func isMap(t types.Type) bool {
	if t == nil {
		return false
	}
	_, ok := t.Underlying().(*types.Map)
	return ok
}

func (f *fileCtx) rewriteImports() {
	for _, imp := range f.file.Imports {
		path := strings.Trim(imp.Path.Value, `"`)
		var np, name string
		switch path {
		case "sync":
			np, name = vrtPath+"/vsync", "sync"
		case "sync/atomic":
			np, name = vrtPath+"/vatomic", "atomic"
		default:
			continue
		}
		if f.mode != "explore" {
			continue
		}
		if imp.Name != nil {
			name = imp.Name.Name
			f.repl(imp.Path.Pos(), imp.Path.End(), `"`+np+`"`)
		} else {
			f.repl(imp.Path.Pos(), imp.Path.End(), name+` "`+np+`"`)
		}
	}
	// vrt import on the package clause line: no line shifts
	f.ins(f.file.Name.End(), `; import vrt "`+vrtPath+`"; import vrtunsafe "unsafe"`)
}

// pure reports whether evaluating e twice is harmless (identifiers, field
// selectors, dereferences, method calls without arguments such as ctx.Done()).
func pure(e ast.Expr) bool {
	switch x := e.(type) {
	case *ast.Ident:
		return true
	case *ast.SelectorExpr:
		return pure(x.X)
	case *ast.StarExpr:
		return pure(x.X)
	case *ast.ParenExpr:
		return pure(x.X)
	case *ast.CallExpr:
		return len(x.Args) == 0 && pure(x.Fun)
	case *ast.BasicLit:
		return true
	}
	return false
}

func (f *fileCtx) walk() {
	var stack []ast.Node
	inComm := map[ast.Node]bool{} // comm statements of select clauses: left untouched
	ast.Inspect(f.file, func(n ast.Node) bool {
		if n == nil {
			stack = stack[:len(stack)-1]
			return true
		}
		stack = append(stack, n)
		parent := func(i int) ast.Node {
			if len(stack)-1-i < 0 {
				return nil
			}
			return stack[len(stack)-1-i]
		}
		switch x := n.(type) {
		case *ast.SelectorExpr:
			f.selector(x)
		case *ast.GoStmt:
			if f.mode != "explore" {
				break
			}
			// the function value and the arguments of a go statement are evaluated by the spawning goroutine,
			// at the go statement (go f(i) in a loop must see that iteration's i)
			var names, exprs []string
			needs := func(a ast.Expr) bool {
				if tv, ok := f.info.Types[a]; ok && (tv.Value != nil || tv.IsNil() || tv.IsType()) {
					return false
				}
				if _, ok := a.(*ast.FuncLit); ok {
					return false
				}
				return true
			}
			line := f.fset.Position(x.Pos()).Line
			switch fun := unparen(x.Call.Fun).(type) {
			case *ast.FuncLit:
			case *ast.Ident:
				if _, isVar := f.info.Uses[fun].(*types.Var); isVar {
					name := fmt.Sprintf("vrtgf%d", line)
					names, exprs = append(names, name), append(exprs, f.text(fun))
					f.repl(x.Call.Fun.Pos(), x.Call.Fun.End(), name)
				}
			case *ast.SelectorExpr:
				if sel := f.info.Selections[fun]; sel != nil && (sel.Kind() == types.MethodVal || sel.Kind() == types.FieldVal) {
					// method value: binds the receiver now
					name := fmt.Sprintf("vrtgf%d", line)
					names, exprs = append(names, name), append(exprs, f.text(fun))
					f.repl(x.Call.Fun.Pos(), x.Call.Fun.End(), name)
				}
			default:
				name := fmt.Sprintf("vrtgf%d", line)
				names, exprs = append(names, name), append(exprs, f.text(fun))
				f.repl(x.Call.Fun.Pos(), x.Call.Fun.End(), name)
			}
			for i, a := range x.Call.Args {
				if _, isTuple := f.info.TypeOf(a).(*types.Tuple); isTuple {
					f.unsupported(x, "go statement whose arguments are the results of a multi-valued call")
				}
				if needs(a) {
					name := fmt.Sprintf("vrtg%d_%d", line, i)
					names, exprs = append(names, name), append(exprs, f.text(a))
					f.repl(a.Pos(), a.End(), name)
				}
			}
			if len(names) > 0 {
				f.repl(x.Pos(), x.Call.Pos(), "{ "+strings.Join(names, ", ")+" := "+strings.Join(exprs, ", ")+"; vrt.Go(func() { ")
				f.ins(x.End(), " }) }")
			} else {
				f.repl(x.Pos(), x.Call.Pos(), "vrt.Go(func() { ")
				f.ins(x.End(), " })")
			}
		case *ast.SendStmt:
			if f.mode != "explore" || inComm[x] {
				break
			}
			// Go evaluates the channel and then the value and only then communicates: the scheduling
			// point of the send must come after both (a value that is a call may run for long and
			// has scheduling points of its own).
			constVal := false
			if tv, ok := f.info.Types[x.Value]; ok && (tv.Value != nil || tv.IsNil()) {
				constVal = true
			}
			hoistChan, hoistVal := !plainOperand(x.Chan), !constVal && !plainOperand(x.Value)
			if !hoistChan && !hoistVal {
				f.ins(x.Pos(), "vrt.BeforeSend("+f.text(x.Chan)+"); ")
				break
			}
			switch parent(1).(type) {
			case *ast.BlockStmt, *ast.CaseClause, *ast.CommClause:
			default:
				f.unsupported(x, "send with operands that have to be evaluated first outside a statement list")
			}
			line := f.fset.Position(x.Pos()).Line
			ch, head := f.text(x.Chan), "{ "
			if hoistChan {
				ch = fmt.Sprintf("vrts%d", line)
				head += ch + " := " + f.text(x.Chan) + "; "
			}
			if hoistVal {
				val := fmt.Sprintf("vrtv%d", line)
				f.repl(x.Pos(), x.Value.Pos(), head+val+" := ")
				f.ins(x.End(), "; vrt.BeforeSend("+ch+"); "+ch+" <- "+val+" }")
			} else {
				f.repl(x.Pos(), x.Value.Pos(), head+"vrt.BeforeSend("+ch+"); "+ch+" <- ")
				f.ins(x.End(), " }")
			}
		case *ast.UnaryExpr:
			if f.mode != "explore" || x.Op != token.ARROW {
				break
			}
			// is this the receive of a comm clause?
			for i := 1; i <= 3; i++ {
				if p := parent(i); p != nil && inComm[p] {
					return true
				}
			}
			fn := "vrt.Recv("
			if as, ok := parent(1).(*ast.AssignStmt); ok && len(as.Lhs) == 2 && len(as.Rhs) == 1 && as.Rhs[0] == ast.Expr(x) {
				fn = "vrt.Recv2("
			}
			if vs, ok := parent(1).(*ast.ValueSpec); ok && len(vs.Names) == 2 && len(vs.Values) == 1 {
				fn = "vrt.Recv2("
			}
			f.repl(x.Pos(), x.X.Pos(), fn)
			f.ins(x.End(), ")")
		case *ast.CallExpr:
			if f.mode != "explore" {
				break
			}
			if id, ok := x.Fun.(*ast.Ident); ok && id.Name == "close" {
				if _, isBuiltin := f.info.Uses[id].(*types.Builtin); isBuiltin {
					f.repl(id.Pos(), id.End(), "vrt.Close")
				}
			}
			if id, ok := x.Fun.(*ast.Ident); ok && (id.Name == "make" || id.Name == "cap" || id.Name == "len") && len(x.Args) >= 1 {
				if _, isBuiltin := f.info.Uses[id].(*types.Builtin); isBuiltin {
					if t := f.info.TypeOf(x.Args[0]); t != nil {
						if _, isCh := t.Underlying().(*types.Chan); isCh {
							switch id.Name {
							case "make":
								// make(X[, n]) -> vrt.MakeChan(n, func(vrtn int) X { return make(X, vrtn) })
								typ := f.text(x.Args[0])
								n := "0"
								if len(x.Args) > 1 {
									n = f.text(x.Args[1])
								}
								f.repl(x.Pos(), x.End(), "vrt.MakeChan("+n+", func(vrtn int) "+typ+" { return make("+typ+", vrtn) })")
								stack = stack[:len(stack)-1] // the children are part of the replaced text: not visited, no post-visit call
								return false
							case "cap":
								f.repl(id.Pos(), id.End(), "vrt.ChanCap")
							case "len":
								f.repl(id.Pos(), id.End(), "vrt.ChanLen")
							}
						}
					}
				}
			}
		case *ast.SelectStmt:
			if f.mode != "explore" {
				break
			}
			f.selectStmt(x, inComm)
		case *ast.RangeStmt:
			if f.mode != "explore" {
				break
			}
			f.rangeStmt(x)
		}
		return true
	})
}

func (f *fileCtx) selector(x *ast.SelectorExpr) {
	p := f.pkgOf(x.X)
	if p == "" {
		return
	}
	id := x.X.(*ast.Ident)
	var to string
	switch p + "." + x.Sel.Name {
	case "net.Dial":
		to = "vrt.Dial"
	case "crypto/rand.Reader":
		to = "vrt.RandReader"
	case "crypto/rand.Read":
		to = "vrt.RandRead"
	case "context.WithTimeout":
		if f.mode == "explore" {
			to = "vrt.WithTimeout"
		}
	case "context.WithDeadline":
		if f.mode == "explore" {
			to = "vrt.WithDeadline"
		}
	case "context.WithTimeoutCause", "context.WithDeadlineCause":
		if f.mode == "explore" {
			to = "vrt." + x.Sel.Name
		}
	case "context.AfterFunc":
		if f.mode == "explore" {
			to = "vrt.ContextAfterFunc"
		}
	case "time.Now":
		if f.mode == "explore" {
			to = "vrt.VNow"
		}
	case "time.Sleep":
		if f.mode == "explore" {
			to = "vrt.Sleep"
		}
	case "time.Since":
		if f.mode == "explore" {
			to = "vrt.Since" // virtual clock
		}
	case "time.Until":
		if f.mode == "explore" {
			to = "vrt.Until"
		}
	case "runtime.SetFinalizer":
		if f.mode == "explore" {
			to = "vrt.SetFinalizer" // run by the explorer once the harness declares the object unreachable
		}
	case "runtime.GC":
		if f.mode == "explore" {
			to = "vrt.GC"
		}
	case "io.Pipe", "io.PipeReader", "io.PipeWriter":
		if f.mode == "explore" {
			to = "vrt.IO" + x.Sel.Name // the real pipe parks its callers inside the standard library
		}
	case "time.After", "time.NewTimer", "time.AfterFunc", "time.Tick", "time.NewTicker", "time.Timer", "time.Ticker":
		if f.mode == "explore" {
			to = "vrt." + x.Sel.Name // timers on the virtual clock (the types as well)
		}
	}
	if to == "" {
		return
	}
	f.repl(x.Pos(), x.End(), to)
	f.usedPkg[id.Name] = true
}

func (f *fileCtx) selectStmt(x *ast.SelectStmt, inComm map[ast.Node]bool) {
	hasDefault := false
	var cases []string
	idx := 0
	// Go evaluates every channel expression and every send value exactly once, in source order, on
	// entering the select. Operands that are not plain names are therefore evaluated into
	// temporaries in the init statement of the generated switch (one parallel assignment keeps
	// the order and keeps the whole thing a single statement: labels and break still work).
	var tmpNames, tmpExprs []string
	hoist := func(e ast.Expr, kind string) string {
		name := fmt.Sprintf("vrt%s%d_%d", kind, f.fset.Position(x.Pos()).Line, len(tmpNames))
		tmpNames = append(tmpNames, name)
		tmpExprs = append(tmpExprs, "("+f.text(e)+")") // parentheses: a composite literal is not allowed bare in a switch header
		f.repl(e.Pos(), e.End(), name)
		return name
	}
	for _, c := range x.Body.List {
		cc := c.(*ast.CommClause)
		if cc.Comm == nil {
			hasDefault = true
			continue
		}
		inComm[cc.Comm] = true
		var ch ast.Expr
		send := false
		var val ast.Expr
		switch s := cc.Comm.(type) {
		case *ast.SendStmt:
			ch, send, val = s.Chan, true, s.Value
		case *ast.ExprStmt:
			ch = unparen(s.X).(*ast.UnaryExpr).X
		case *ast.AssignStmt:
			ch = unparen(s.Rhs[0]).(*ast.UnaryExpr).X
		}
		chText := f.text(ch)
		if !plainOperand(ch) {
			chText = hoist(ch, "c")
		}
		if send && !plainOperand(val) {
			hoist(val, "v")
		}
		if send {
			cases = append(cases, "vrt.W("+chText+")")
		} else {
			cases = append(cases, "vrt.R("+chText+")")
		}
		// case <comm>:  ->  case i: <comm>;
		f.repl(cc.Pos(), cc.Comm.Pos(), fmt.Sprintf("case %d: ", idx))
		f.repl(cc.Colon, cc.Colon+1, ";")
		idx++
	}
	hd := "false"
	if hasDefault {
		hd = "true"
	} else {
		// a select without default is a terminating statement, a switch is not
		f.ins(x.Body.Rbrace, "; default: panic(\"vrt: select returned no case\") ")
	}
	init := ""
	if len(tmpNames) > 0 {
		init = strings.Join(tmpNames, ", ") + " := " + strings.Join(tmpExprs, ", ") + "; "
	}
	f.repl(x.Pos(), x.Body.Pos(), "switch "+init+"vrt.Select("+hd+", "+strings.Join(cases, ", ")+") ")
}

func unparen(e ast.Expr) ast.Expr {
	for {
		p, ok := e.(*ast.ParenExpr)
		if !ok {
			return e
		}
		e = p.X
	}
}

// plainOperand: an operand that may be evaluated again without any effect (names, field
// selections, literals) - everything else is evaluated once into a temporary.
func plainOperand(e ast.Expr) bool {
	switch x := e.(type) {
	case *ast.Ident, *ast.BasicLit:
		return true
	case *ast.SelectorExpr:
		return plainOperand(x.X)
	case *ast.StarExpr:
		return plainOperand(x.X)
	case *ast.ParenExpr:
		return plainOperand(x.X)
	}
	return false
}

func (f *fileCtx) rangeStmt(x *ast.RangeStmt) {
	t := f.info.TypeOf(x.X)
	switch {
	case isMap(t):
		m := f.text(x.X)
		if _, isName := unparen(x.X).(*ast.Ident); !isName {
			// evaluate the map expression once: { vrtm := <expr>; for ... range vrt.Keys(vrtm) { ... } }
			name := fmt.Sprintf("vrtm%d", f.fset.Position(x.Pos()).Line)
			f.ins(x.Pos(), "{ "+name+" := "+m+"; ")
			f.ins(x.End(), " }")
			m = name
		}
		key, val := "_", ""
		if x.Key != nil {
			key = f.text(x.Key)
		}
		if x.Value != nil {
			val = f.text(x.Value)
		}
		op := ":="
		if x.Tok == token.ASSIGN {
			op = "="
		}
		kvar := key
		head := ""
		if key == "_" {
			if val == "" || val == "_" {
				head = fmt.Sprintf("for range vrt.Keys(%s) ", m)
				f.repl(x.Pos(), x.Body.Pos(), head)
				return
			}
			kvar = "vrtk_"
			head = fmt.Sprintf("for _, vrtk_ := range vrt.Keys(%s) ", m)
		} else {
			head = fmt.Sprintf("for _, %s %s range vrt.Keys(%s) ", key, op, m)
			if x.Tok == token.ASSIGN {
				head = fmt.Sprintf("for _, %s = range vrt.Keys(%s) ", key, m)
			}
		}
		f.repl(x.Pos(), x.Body.Pos(), head)
		if val != "" && val != "_" {
			f.ins(x.Body.Lbrace+1, fmt.Sprintf(" %s %s %s[%s];", val, op, m, kvar))
		}
	case isChan(t):
		// for v := range ch { body }  ->  for vrtr := ch; ; { v, vrtok := vrt.Recv2(vrtr); if !vrtok { break }; body }
		n := f.fset.Position(x.Pos()).Line
		tmp, ok := fmt.Sprintf("vrtr%d", n), fmt.Sprintf("vrtok%d", n)
		recv := ""
		switch {
		case x.Key == nil || f.text(x.Key) == "_":
			recv = fmt.Sprintf(" _, %s := vrt.Recv2(%s);", ok, tmp)
		case x.Tok == token.ASSIGN:
			recv = fmt.Sprintf(" var %s bool; %s, %s = vrt.Recv2(%s);", ok, f.text(x.Key), ok, tmp)
		default:
			recv = fmt.Sprintf(" %s, %s := vrt.Recv2(%s);", f.text(x.Key), ok, tmp)
		}
		f.repl(x.Pos(), x.Body.Pos(), fmt.Sprintf("for %s := (%s); ; ", tmp, f.text(x.X)))
		f.ins(x.Body.Lbrace+1, recv+fmt.Sprintf(" if !%s { break };", ok))
	}
}

func (f *fileCtx) finish() {
	var tail bytes.Buffer
	tail.WriteString("\nvar _ = vrt.Keep\nvar _ vrtunsafe.Pointer\n")
	for _, imp := range f.file.Imports {
		path := strings.Trim(imp.Path.Value, `"`)
		name := filepath.Base(path)
		if imp.Name != nil {
			name = imp.Name.Name
		}
		if !f.usedPkg[name] {
			continue
		}
		switch path {
		case "net":
			fmt.Fprintf(&tail, "var _ %s.Conn\n", name)
		case "crypto/rand":
			fmt.Fprintf(&tail, "var _ = %s.Int\n", name)
		case "context":
			fmt.Fprintf(&tail, "var _ %s.Context\n", name)
		case "time":
			fmt.Fprintf(&tail, "var _ %s.Duration\n", name)
		case "runtime":
			fmt.Fprintf(&tail, "var _ = %s.GOOS\n", name)
		case "io":
			fmt.Fprintf(&tail, "var _ %s.Reader\n", name)
		}
	}
	f.edits = append(f.edits, edit{off: len(f.src), text: tail.String(), seq: len(f.edits)})
}

func main() {
	repo := flag.String("repo", "/repo", "repository root")
	pkgs := flag.String("pkgs", "tds", "comma separated package directories relative to the repo ('.' for the root)")
	mode := flag.String("mode", "explore", "explore|race")
	out := flag.String("out", "", "directory for rewritten files")
	overlay := flag.String("overlay", "", "overlay file to write")
	vrtDir := flag.String("vrt", "", "directory holding the vrt runtime sources")
	acc := flag.Bool("acc", false, "insert vrt.Acc before statements touching shared fields (explore mode)")
	flag.Parse()
	if *out == "" || *overlay == "" || *vrtDir == "" {
		fmt.Fprintln(os.Stderr, "vinstr: -out, -overlay and -vrt are required")
		os.Exit(2)
	}
	if err := os.Chdir(*repo); err != nil {
		fmt.Fprintln(os.Stderr, err)
		os.Exit(2)
	}
	os.MkdirAll(*out, 0o755)
	replace := map[string]string{}
	// virtual package vrt
	filepath.Walk(*vrtDir, func(p string, fi os.FileInfo, err error) error {
		if err != nil || fi.IsDir() || !strings.HasSuffix(p, ".go") || strings.HasSuffix(p, "_test.go") {
			return nil
		}
		rel, _ := filepath.Rel(*vrtDir, p)
		replace[filepath.Join(*repo, "vrt", rel)] = p
		return nil
	})
	var failed []string
	for _, dir := range strings.Split(*pkgs, ",") {
		dir = strings.TrimSpace(dir)
		if dir == "" {
			continue
		}
		abs := filepath.Join(*repo, dir)
		fset := token.NewFileSet()
		ents, err := os.ReadDir(abs)
		if err != nil {
			fmt.Fprintln(os.Stderr, err)
			os.Exit(2)
		}
		var files []*ast.File
		var names []string
		srcs := map[string][]byte{}
		for _, e := range ents {
			n := e.Name()
			if e.IsDir() || !strings.HasSuffix(n, ".go") || strings.HasSuffix(n, "_test.go") {
				continue
			}
			p := filepath.Join(abs, n)
			src, err := os.ReadFile(p)
			if err != nil {
				fmt.Fprintln(os.Stderr, err)
				os.Exit(2)
			}
			af, err := parser.ParseFile(fset, p, src, parser.ParseComments)
			if err != nil {
				fmt.Fprintln(os.Stderr, "vinstr: parse error (tree does not compile):", err)
				os.Exit(2)
			}
			files = append(files, af)
			names = append(names, p)
			srcs[p] = src
		}
		info := &types.Info{Types: map[ast.Expr]types.TypeAndValue{}, Uses: map[*ast.Ident]types.Object{}, Defs: map[*ast.Ident]types.Object{}, Selections: map[*ast.SelectorExpr]*types.Selection{}}
		conf := types.Config{Importer: importer.ForCompiler(fset, "source", nil), Error: func(err error) {}}
		pkg, _ := conf.Check(dir, fset, files, info)
		for i, af := range files {
			fc := &fileCtx{fset: fset, file: af, src: srcs[names[i]], info: info, pkg: pkg, mode: *mode, acc: *acc, usedPkg: map[string]bool{}, name: names[i]}
			fc.rewriteImports()
			fc.walk()
			if *acc && *mode == "explore" {
				fc.accInstrument()
			}
			fc.finish()
			failed = append(failed, fc.failed...)
			outp := filepath.Join(*out, strings.ReplaceAll(dir, "/", "_")+"__"+filepath.Base(names[i]))
			if err := os.WriteFile(outp, fc.apply(), 0o644); err != nil {
				fmt.Fprintln(os.Stderr, err)
				os.Exit(2)
			}
			replace[names[i]] = outp
		}
	}
	if len(failed) > 0 {
		for _, f := range failed {
			fmt.Fprintln(os.Stderr, "vinstr:", f)
		}
		os.Exit(2)
	}
	bs, _ := json.MarshalIndent(map[string]interface{}{"Replace": replace}, "", " ")
	if err := os.WriteFile(*overlay, bs, 0o644); err != nil {
		fmt.Fprintln(os.Stderr, err)
		os.Exit(2)
	}
}
