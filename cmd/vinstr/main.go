package main

func main() {}
