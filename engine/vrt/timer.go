package vrt

import (
	"context"
	"time"
)

// Virtual timers. context.WithTimeout / WithDeadline of instrumented code
// are redirected here: the timer fires when the scheduler decides (at
// quiescence, earliest deadline first; or early as an explorer alternative),
// never in real time.

type timer struct {
	at     time.Duration
	seq    int
	ctx    *timerCtx
	fired  bool
	cancel context.CancelFunc
}

type timerCtx struct {
	context.Context // inner cancelCtx: Done/Value delegate, so children attach without a goroutine
	deadline        time.Time
	t               *timer
}

var vepoch = time.Date(2030, 1, 1, 0, 0, 0, 0, time.UTC)

func (c *timerCtx) Deadline() (time.Time, bool) { return c.deadline, true }

func (c *timerCtx) Err() error {
	if c.t.fired {
		return context.DeadlineExceeded
	}
	return c.Context.Err()
}

func (s *sched) earliestTimer() *timer {
	var best *timer
	for _, t := range s.timers {
		if best == nil || t.at < best.at || (t.at == best.at && t.seq < best.seq) {
			best = t
		}
	}
	return best
}

func (s *sched) removeTimer(t *timer) {
	for i, x := range s.timers {
		if x == t {
			s.timers = append(s.timers[:i], s.timers[i+1:]...)
			return
		}
	}
}

func (s *sched) fireTimer(t *timer) {
	s.removeTimer(t)
	if t.at > s.now {
		s.now = t.at
	}
	t.fired = true
	t.cancel()
	s.progress++
	if s.cfg.TraceOps {
		s.trace = append(s.trace, "timer fired at "+s.now.String())
	}
}

// WithTimeout replaces context.WithTimeout.
func WithTimeout(parent context.Context, d time.Duration) (context.Context, context.CancelFunc) {
	s := S
	if s == nil {
		return context.WithTimeout(parent, d)
	}
	inner, cancel := context.WithCancel(parent)
	if s.aborting {
		return inner, cancel
	}
	s.nextObj++
	t := &timer{at: s.now + d, seq: s.nextObj, cancel: cancel}
	c := &timerCtx{Context: inner, deadline: vepoch.Add(t.at), t: t}
	t.ctx = c
	if d <= 0 {
		t.fired = true
		cancel()
		return c, func() {}
	}
	s.timers = append(s.timers, t)
	return c, func() {
		if S == s {
			s.removeTimer(t)
		}
		cancel()
	}
}

// WithDeadline replaces context.WithDeadline (deadlines are interpreted
// relative to the virtual epoch).
func WithDeadline(parent context.Context, at time.Time) (context.Context, context.CancelFunc) {
	s := S
	if s == nil {
		return context.WithDeadline(parent, at)
	}
	return WithTimeout(parent, at.Sub(vepoch)-s.now)
}

// Sleep advances virtual time for the calling thread: it blocks until a
// virtual timer of duration d has fired.
func Sleep(d time.Duration) {
	s := S
	if s == nil {
		time.Sleep(d)
		return
	}
	ctx, cancel := WithTimeout(context.Background(), d)
	defer cancel()
	Recv(ctx.Done())
}

// VNow returns the virtual wall clock.
func VNow() time.Time {
	if S == nil {
		return time.Now()
	}
	return vepoch.Add(S.now)
}

// Since / Until replace time.Since / time.Until (which read the real clock).
func Since(t time.Time) time.Duration { return VNow().Sub(t) }
func Until(t time.Time) time.Duration { return t.Sub(VNow()) }

// ---- time.Timer / time.Ticker / time.After / time.AfterFunc on the virtual clock ----
//
// Instrumented code has `time.Timer`, `time.Ticker`, `time.NewTimer`,
// `time.NewTicker`, `time.After`, `time.AfterFunc`, `time.Tick` rewritten to
// the names below. A timer fires when the scheduler gets to it (at quiescence,
// earliest first): the value is put into the one-slot channel, an AfterFunc
// runs as a thread of its own.

// Timer mirrors time.Timer.
type Timer struct {
	C  <-chan time.Time
	c  chan time.Time
	f  func()
	t  *timer
	ep int64
}

func (tm *Timer) arm(d time.Duration) {
	s := S
	tm.ep = Epoch()
	if s == nil || s.aborting {
		return
	}
	s.nextObj++
	t := &timer{at: s.now + d, seq: s.nextObj}
	t.cancel = func() {
		if tm.f != nil {
			s.spawn("afterfunc", tm.f)
			return
		}
		select {
		case tm.c <- vepoch.Add(s.now):
		default:
		}
	}
	tm.t = t
	if d < 0 {
		t.at = s.now
	}
	s.timers = append(s.timers, t)
}

// NewTimer replaces time.NewTimer.
func NewTimer(d time.Duration) *Timer {
	c := make(chan time.Time, 1)
	tm := &Timer{C: c, c: c}
	tm.arm(d)
	return tm
}

// AfterFunc replaces time.AfterFunc.
func AfterFunc(d time.Duration, f func()) *Timer {
	tm := &Timer{f: f}
	tm.arm(d)
	return tm
}

// After replaces time.After.
func After(d time.Duration) <-chan time.Time { return NewTimer(d).C }

// Stop mirrors (*time.Timer).Stop: reports whether the call stopped the timer before it fired.
func (tm *Timer) Stop() bool {
	s := S
	if s == nil || tm.t == nil || tm.ep != Epoch() {
		return false
	}
	PointOp("Timer.Stop", 0)
	active := !tm.t.fired
	for _, x := range s.timers {
		if x == tm.t {
			s.removeTimer(tm.t)
			return active
		}
	}
	return false
}

// Reset mirrors (*time.Timer).Reset.
func (tm *Timer) Reset(d time.Duration) bool {
	active := tm.Stop()
	tm.arm(d)
	return active
}

// Ticker mirrors time.Ticker.
type Ticker struct {
	C       <-chan time.Time
	c       chan time.Time
	d       time.Duration
	t       *timer
	stopped bool
	ep      int64
}

func (tk *Ticker) arm() {
	s := S
	tk.ep = Epoch()
	if s == nil || s.aborting || tk.stopped {
		return
	}
	s.nextObj++
	t := &timer{at: s.now + tk.d, seq: s.nextObj}
	t.cancel = func() {
		select {
		case tk.c <- vepoch.Add(s.now):
		default: // a slow receiver drops ticks, like the real ticker
		}
		tk.arm()
	}
	tk.t = t
	s.timers = append(s.timers, t)
}

// NewTicker replaces time.NewTicker.
func NewTicker(d time.Duration) *Ticker {
	if d <= 0 {
		panic("non-positive interval for NewTicker")
	}
	c := make(chan time.Time, 1)
	tk := &Ticker{C: c, c: c, d: d}
	tk.arm()
	return tk
}

// Tick replaces time.Tick.
func Tick(d time.Duration) <-chan time.Time { return NewTicker(d).C }

func (tk *Ticker) Stop() {
	tk.stopped = true
	if s := S; s != nil && tk.t != nil && tk.ep == Epoch() {
		s.removeTimer(tk.t)
	}
}

func (tk *Ticker) Reset(d time.Duration) {
	tk.Stop()
	tk.stopped, tk.d = false, d
	tk.arm()
}

// ContextAfterFunc replaces context.AfterFunc: the standard library would run f
// in a goroutine of its own that the scheduler does not own. Here a thread
// waits for ctx to end (or for stop) and then runs f.
func ContextAfterFunc(ctx context.Context, f func()) (stop func() bool) {
	s := S
	if s == nil || s.aborting {
		return context.AfterFunc(ctx, f)
	}
	stopCh := make(chan struct{})
	s.keep = append(s.keep, stopCh)
	started, stopped := false, false
	GoNamed("context.AfterFunc", func() {
		if Select(false, R(ctx.Done()), R((<-chan struct{})(stopCh))) == 0 && !stopped {
			started = true
			f()
		}
	})
	return func() bool {
		PointOp("context.AfterFunc.stop", 0)
		if started || stopped {
			return false
		}
		stopped = true
		Close(stopCh)
		return true
	}
}

// WithTimeoutCause / WithDeadlineCause replace the context functions of the same name (the cause
// is recorded; the deadline is a virtual timer).
func WithTimeoutCause(parent context.Context, d time.Duration, cause error) (context.Context, context.CancelFunc) {
	s := S
	if s == nil {
		return context.WithTimeoutCause(parent, d, cause)
	}
	inner, cancelCause := context.WithCancelCause(parent)
	ctx, cancel := WithTimeout(inner, d)
	if tc, ok := ctx.(*timerCtx); ok && tc.t != nil {
		fire := tc.t.cancel
		tc.t.cancel = func() { cancelCause(cause); fire() }
	}
	return ctx, func() { cancel(); cancelCause(context.Canceled) }
}

func WithDeadlineCause(parent context.Context, at time.Time, cause error) (context.Context, context.CancelFunc) {
	s := S
	if s == nil {
		return context.WithDeadlineCause(parent, at, cause)
	}
	return WithTimeoutCause(parent, at.Sub(vepoch)-s.now, cause)
}
