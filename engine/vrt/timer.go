package vrt

import (
	"context"
	"time"
)

// Virtual timers. context.WithTimeout / WithDeadline of instrumented code
// are redirected here: the timer fires when the scheduler decides (at
// quiescence, earliest deadline first; or early as an explorer alternative),
// never in real time.

type timer struct {
	at     time.Duration
	seq    int
	ctx    *timerCtx
	fired  bool
	cancel context.CancelFunc
}

type timerCtx struct {
	context.Context // inner cancelCtx: Done/Value delegate, so children attach without a goroutine
	deadline        time.Time
	t               *timer
}

var vepoch = time.Date(2030, 1, 1, 0, 0, 0, 0, time.UTC)

func (c *timerCtx) Deadline() (time.Time, bool) { return c.deadline, true }

func (c *timerCtx) Err() error {
	if c.t.fired {
		return context.DeadlineExceeded
	}
	return c.Context.Err()
}

func (s *sched) earliestTimer() *timer {
	var best *timer
	for _, t := range s.timers {
		if best == nil || t.at < best.at || (t.at == best.at && t.seq < best.seq) {
			best = t
		}
	}
	return best
}

func (s *sched) removeTimer(t *timer) {
	for i, x := range s.timers {
		if x == t {
			s.timers = append(s.timers[:i], s.timers[i+1:]...)
			return
		}
	}
}

func (s *sched) fireTimer(t *timer) {
	s.removeTimer(t)
	if t.at > s.now {
		s.now = t.at
	}
	t.fired = true
	t.cancel()
	s.progress++
	if s.cfg.TraceOps {
		s.trace = append(s.trace, "timer fired at "+s.now.String())
	}
}

// WithTimeout replaces context.WithTimeout.
func WithTimeout(parent context.Context, d time.Duration) (context.Context, context.CancelFunc) {
	s := S
	if s == nil {
		return context.WithTimeout(parent, d)
	}
	inner, cancel := context.WithCancel(parent)
	if s.aborting {
		return inner, cancel
	}
	s.nextObj++
	t := &timer{at: s.now + d, seq: s.nextObj, cancel: cancel}
	c := &timerCtx{Context: inner, deadline: vepoch.Add(t.at), t: t}
	t.ctx = c
	if d <= 0 {
		t.fired = true
		cancel()
		return c, func() {}
	}
	s.timers = append(s.timers, t)
	return c, func() {
		if S == s {
			s.removeTimer(t)
		}
		cancel()
	}
}

// WithDeadline replaces context.WithDeadline (deadlines are interpreted
// relative to the virtual epoch).
func WithDeadline(parent context.Context, at time.Time) (context.Context, context.CancelFunc) {
	s := S
	if s == nil {
		return context.WithDeadline(parent, at)
	}
	return WithTimeout(parent, at.Sub(vepoch)-s.now)
}

// Sleep advances virtual time for the calling thread: it blocks until a
// virtual timer of duration d has fired.
func Sleep(d time.Duration) {
	s := S
	if s == nil {
		time.Sleep(d)
		return
	}
	ctx, cancel := WithTimeout(context.Background(), d)
	defer cancel()
	Recv(ctx.Done())
}

// VNow returns the virtual wall clock.
func VNow() time.Time {
	if S == nil {
		return time.Now()
	}
	return vepoch.Add(S.now)
}

// Since / Until replace time.Since / time.Until (which read the real clock).
func Since(t time.Time) time.Duration { return VNow().Sub(t) }
func Until(t time.Time) time.Duration { return t.Sub(VNow()) }
