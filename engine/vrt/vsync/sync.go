// Package vsync replaces package sync in instrumented code.
package vsync

import (
	"unsafe"

	"github.com/SAP/go-dblib/vrt"
)

// Locker mirrors sync.Locker.
type Locker interface {
	Lock()
	Unlock()
}

// Mutex mirrors sync.Mutex.
type Mutex struct {
	locked bool
	hb     vrt.SyncVar
	ep     int64
}

// fresh reports (once per execution) that the object carries state of an
// earlier execution, which the caller then drops.
func fresh(ep *int64) bool {
	if e := vrt.Epoch(); *ep != e {
		*ep = e
		return true
	}
	return false
}

func (m *Mutex) reset() {
	if fresh(&m.ep) {
		m.locked, m.hb = false, vrt.SyncVar{}
	}
}

func (m *Mutex) Lock() {
	m.reset()
	vrt.Block("Mutex.Lock", uintptr(unsafe.Pointer(m)), func() bool { return !m.locked })
	m.locked = true
	vrt.Acquire(&m.hb)
}

func (m *Mutex) TryLock() bool {
	m.reset()
	vrt.PointOp("Mutex.TryLock", uintptr(unsafe.Pointer(m)))
	if m.locked {
		return false
	}
	m.locked = true
	vrt.Acquire(&m.hb)
	return true
}

func (m *Mutex) Unlock() {
	m.reset()
	vrt.PointOp("Mutex.Unlock", uintptr(unsafe.Pointer(m)))
	if !m.locked {
		if vrt.Active() {
			panic("sync: unlock of unlocked mutex")
		}
		return
	}
	vrt.Release(&m.hb)
	m.locked = false
}

// RWMutex mirrors sync.RWMutex including writer preference: a writer that
// has called Lock blocks new readers while it waits for the active ones.
type RWMutex struct {
	wheld   bool // a writer holds or has announced
	readers int
	hbW     vrt.SyncVar // released by Unlock, acquired by Lock and RLock
	hbR     vrt.SyncVar // released by RUnlock, acquired by Lock
	ep      int64
}

func (m *RWMutex) reset() {
	if fresh(&m.ep) {
		m.wheld, m.readers, m.hbW, m.hbR = false, 0, vrt.SyncVar{}, vrt.SyncVar{}
	}
}

func (m *RWMutex) Lock() {
	m.reset()
	p := uintptr(unsafe.Pointer(m))
	vrt.Block("RWMutex.Lock", p, func() bool { return !m.wheld })
	m.wheld = true
	if m.readers > 0 {
		vrt.Block("RWMutex.Lock(wait readers)", p, func() bool { return m.readers == 0 })
	}
	vrt.Acquire(&m.hbW)
	vrt.Acquire(&m.hbR)
}

func (m *RWMutex) TryLock() bool {
	m.reset()
	vrt.PointOp("RWMutex.TryLock", uintptr(unsafe.Pointer(m)))
	if m.wheld || m.readers > 0 {
		return false
	}
	m.wheld = true
	vrt.Acquire(&m.hbW)
	vrt.Acquire(&m.hbR)
	return true
}

func (m *RWMutex) Unlock() {
	m.reset()
	vrt.PointOp("RWMutex.Unlock", uintptr(unsafe.Pointer(m)))
	if !m.wheld {
		if vrt.Active() {
			panic("sync: Unlock of unlocked RWMutex")
		}
		return
	}
	vrt.Release(&m.hbW)
	m.wheld = false
}

func (m *RWMutex) RLock() {
	m.reset()
	vrt.Block("RWMutex.RLock", uintptr(unsafe.Pointer(m)), func() bool { return !m.wheld })
	m.readers++
	vrt.Acquire(&m.hbW)
}

func (m *RWMutex) TryRLock() bool {
	m.reset()
	vrt.PointOp("RWMutex.TryRLock", uintptr(unsafe.Pointer(m)))
	if m.wheld {
		return false
	}
	m.readers++
	vrt.Acquire(&m.hbW)
	return true
}

func (m *RWMutex) RUnlock() {
	m.reset()
	vrt.PointOp("RWMutex.RUnlock", uintptr(unsafe.Pointer(m)))
	if m.readers == 0 {
		if vrt.Active() {
			panic("sync: RUnlock of unlocked RWMutex")
		}
		return
	}
	vrt.ReleaseMerge(&m.hbR)
	m.readers--
}

type rlocker RWMutex

func (r *rlocker) Lock()   { (*RWMutex)(r).RLock() }
func (r *rlocker) Unlock() { (*RWMutex)(r).RUnlock() }

// RLocker mirrors (*sync.RWMutex).RLocker.
func (m *RWMutex) RLocker() Locker { return (*rlocker)(m) }

// WaitGroup mirrors sync.WaitGroup.
type WaitGroup struct {
	n  int
	hb vrt.SyncVar
	ep int64
}

func (w *WaitGroup) Add(d int) {
	if fresh(&w.ep) {
		w.n, w.hb = 0, vrt.SyncVar{}
	}
	vrt.PointOp("WaitGroup.Add", uintptr(unsafe.Pointer(w)))
	if d < 0 {
		vrt.ReleaseMerge(&w.hb)
	}
	w.n += d
	if w.n < 0 {
		panic("sync: negative WaitGroup counter")
	}
}

func (w *WaitGroup) Done() { w.Add(-1) }

func (w *WaitGroup) Wait() {
	if fresh(&w.ep) {
		w.n, w.hb = 0, vrt.SyncVar{}
	}
	vrt.Block("WaitGroup.Wait", uintptr(unsafe.Pointer(w)), func() bool { return w.n == 0 })
	vrt.Acquire(&w.hb)
}

// Once mirrors sync.Once.
type Once struct {
	m    Mutex
	done bool
	ep   int64
}

func (o *Once) Do(f func()) {
	if fresh(&o.ep) {
		o.done = false
	}
	o.m.Lock()
	defer o.m.Unlock()
	if !o.done {
		defer func() { o.done = true }()
		f()
	}
}

// Pool mirrors sync.Pool. Get may return any pooled item or call New
// (over-approximation of per-P caches and of the GC emptying the pool);
// which one is an explorer choice, the default being the most recently put
// item.
type Pool struct {
	New   func() interface{}
	items []poolItem
	ep    int64
}

type poolItem struct {
	v  interface{}
	hb vrt.SyncVar
}

func (p *Pool) Put(x interface{}) {
	if x == nil {
		return
	}
	if fresh(&p.ep) {
		p.items = nil
	}
	vrt.PointOp("Pool.Put", uintptr(unsafe.Pointer(p)))
	it := poolItem{v: x}
	vrt.Release(&it.hb)
	p.items = append(p.items, it)
}

func (p *Pool) Get() interface{} {
	if fresh(&p.ep) {
		p.items = nil
	}
	vrt.PointOp("Pool.Get", uintptr(unsafe.Pointer(p)))
	n := len(p.items)
	k := 0
	if n > 0 {
		// alternatives: items newest first, then "pool was emptied / other P": New
		k = vrt.Choose("pool", n+1)
	}
	if n == 0 || k == n {
		if p.New == nil {
			return nil
		}
		return p.New()
	}
	i := n - 1 - k
	it := p.items[i]
	p.items = append(p.items[:i], p.items[i+1:]...)
	vrt.Acquire(&it.hb)
	return it.v
}

// Cond mirrors sync.Cond. Wait releases L, parks until a Signal / Broadcast
// issued AFTER the wait began reaches it, and re-acquires L. Signal wakes one
// waiter (which one is the explorer's choice), Broadcast all of them; a
// wake-up without a waiter is lost, as with the real primitive.
type Cond struct {
	L       Locker
	waiters []*condWaiter
	hb      vrt.SyncVar
	ep      int64
}

type condWaiter struct{ woken bool }

// NewCond mirrors sync.NewCond.
func NewCond(l Locker) *Cond { return &Cond{L: l} }

func (c *Cond) reset() {
	if fresh(&c.ep) {
		c.waiters, c.hb = nil, vrt.SyncVar{}
	}
}

func (c *Cond) Wait() {
	c.reset()
	w := &condWaiter{}
	c.waiters = append(c.waiters, w)
	c.L.Unlock()
	vrt.Block("Cond.Wait", uintptr(unsafe.Pointer(c)), func() bool { return w.woken })
	vrt.Acquire(&c.hb)
	c.L.Lock()
}

func (c *Cond) Signal() {
	c.reset()
	vrt.PointOp("Cond.Signal", uintptr(unsafe.Pointer(c)))
	if len(c.waiters) == 0 {
		return
	}
	k := 0
	if len(c.waiters) > 1 {
		k = vrt.Choose("cond", len(c.waiters))
	}
	vrt.ReleaseMerge(&c.hb)
	c.waiters[k].woken = true
	c.waiters = append(c.waiters[:k], c.waiters[k+1:]...)
}

func (c *Cond) Broadcast() {
	c.reset()
	vrt.PointOp("Cond.Broadcast", uintptr(unsafe.Pointer(c)))
	if len(c.waiters) == 0 {
		return
	}
	vrt.ReleaseMerge(&c.hb)
	for _, w := range c.waiters {
		w.woken = true
	}
	c.waiters = nil
}

// Map mirrors sync.Map. Every operation is a scheduling point and a
// synchronisation on the map as a whole (more happens-before than the real
// primitive guarantees between unrelated keys: can hide, never invent, a
// race). Range visits a snapshot in insertion order.
type Map struct {
	m    map[interface{}]interface{}
	keys []interface{}
	hb   vrt.SyncVar
	ep   int64
}

func (m *Map) op(name string) {
	if fresh(&m.ep) {
		m.m, m.keys, m.hb = nil, nil, vrt.SyncVar{}
	}
	vrt.PointOp("Map."+name, uintptr(unsafe.Pointer(m)))
	vrt.Acquire(&m.hb)
	vrt.ReleaseMerge(&m.hb)
	if m.m == nil {
		m.m = map[interface{}]interface{}{}
	}
}

func (m *Map) drop(key interface{}) {
	delete(m.m, key)
	for i, k := range m.keys {
		if k == key {
			m.keys = append(m.keys[:i], m.keys[i+1:]...)
			return
		}
	}
}

func (m *Map) Load(key interface{}) (interface{}, bool) {
	m.op("Load")
	v, ok := m.m[key]
	return v, ok
}

func (m *Map) Store(key, value interface{}) { m.Swap(key, value) }

func (m *Map) Swap(key, value interface{}) (interface{}, bool) {
	m.op("Swap")
	old, ok := m.m[key]
	if !ok {
		m.keys = append(m.keys, key)
	}
	m.m[key] = value
	return old, ok
}

func (m *Map) LoadOrStore(key, value interface{}) (interface{}, bool) {
	m.op("LoadOrStore")
	if v, ok := m.m[key]; ok {
		return v, true
	}
	m.keys = append(m.keys, key)
	m.m[key] = value
	return value, false
}

func (m *Map) LoadAndDelete(key interface{}) (interface{}, bool) {
	m.op("LoadAndDelete")
	v, ok := m.m[key]
	if ok {
		m.drop(key)
	}
	return v, ok
}

func (m *Map) Delete(key interface{}) { m.LoadAndDelete(key) }

func (m *Map) CompareAndSwap(key, old, new interface{}) bool {
	m.op("CompareAndSwap")
	if v, ok := m.m[key]; ok && v == old {
		m.m[key] = new
		return true
	}
	return false
}

func (m *Map) CompareAndDelete(key, old interface{}) bool {
	m.op("CompareAndDelete")
	if v, ok := m.m[key]; ok && v == old {
		m.drop(key)
		return true
	}
	return false
}

func (m *Map) Range(f func(key, value interface{}) bool) {
	m.op("Range")
	keys := append([]interface{}{}, m.keys...)
	for _, k := range keys {
		v, ok := m.m[k]
		if !ok {
			continue
		}
		if !f(k, v) {
			return
		}
	}
}

func (m *Map) Clear() {
	m.op("Clear")
	m.m, m.keys = map[interface{}]interface{}{}, nil
}
