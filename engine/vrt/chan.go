package vrt

import (
	"fmt"
	"reflect"
	"unsafe"
)

func chanPtr(ch interface{}) uintptr {
	// a channel value is a pointer to its runtime representation
	type eface struct {
		typ, data unsafe.Pointer
	}
	return uintptr((*eface)(unsafe.Pointer(&ch)).data)
}

func (s *sched) recvReady(v reflect.Value, p uintptr) bool {
	if v.IsNil() {
		return false
	}
	if v.Len() > 0 {
		return true
	}
	if s.closed[p] {
		return true
	}
	if v.Cap() == 0 {
		// unbuffered channels are only supported as close-only signals
		// (context.Done()): a successful non-blocking receive means closed.
		// Nothing ever sends on them, so the probe cannot consume a value.
		x, ok := v.TryRecv()
		if ok {
			panic("vrt: received a value from an unbuffered channel while probing; sends on unbuffered channels are not supported")
		}
		return x.IsValid() // valid zero value: the channel is closed
	}
	return false
}

func (s *sched) sendReady(v reflect.Value, p uintptr) bool {
	if v.IsNil() {
		return false
	}
	if s.closed[p] {
		return true // will panic, like the real operation
	}
	if v.Cap() == 0 {
		panic("vrt: send on an unbuffered channel is not supported by the controlled scheduler")
	}
	return v.Len() < v.Cap()
}

// BeforeSend is inserted in front of every send statement: it blocks (as a
// scheduling point) until the real send can proceed without blocking.
func BeforeSend(ch interface{}) {
	s := S
	if s == nil {
		return
	}
	v := reflect.ValueOf(ch)
	p := chanPtr(ch)
	s.point("chan.send", p, func() bool { return s.sendReady(v, p) })
	if s.aborting {
		s.unwind(s.cur)
		return
	}
	if s.hb != nil {
		s.hb.chanSend(s.cur, p, v.Cap())
	}
}

func beforeRecv(ch interface{}) {
	s := S
	if s == nil {
		return
	}
	v := reflect.ValueOf(ch)
	p := chanPtr(ch)
	s.point("chan.recv", p, func() bool { return s.recvReady(v, p) })
	if s.hb != nil && !s.aborting {
		s.hb.chanRecv(s.cur, p, v.Len() == 0 && s.closed[p])
	}
}

// Recv replaces the expression <-ch.
func Recv[T any](ch <-chan T) T {
	beforeRecv(ch)
	if s := S; s != nil && s.aborting {
		select {
		case v := <-ch:
			return v
		default:
			var z T
			return z
		}
	}
	return <-ch
}

// Recv2 replaces v, ok := <-ch.
func Recv2[T any](ch <-chan T) (T, bool) {
	beforeRecv(ch)
	if s := S; s != nil && s.aborting {
		select {
		case v, ok := <-ch:
			return v, ok
		default:
			var z T
			return z, false
		}
	}
	v, ok := <-ch
	return v, ok
}

// Close replaces close(ch).
func Close[T any](ch chan T) {
	s := S
	if s != nil && !s.aborting {
		p := chanPtr(ch)
		s.point("chan.close", p, nil)
		if s.aborting {
			return
		}
		s.closed[p] = true
		// keep the closed channel alive until the execution ends: its address must not be
		// reused by a new channel while the closed flag is recorded for it
		s.keep = append(s.keep, ch)
		if s.hb != nil {
			s.hb.chanClose(s.cur, p)
		}
	}
	close(ch)
}

// SelCase is one communication case of a select statement.
type SelCase struct {
	send bool
	ch   interface{}
}

// R is a receive case, W a send case.
func R(ch interface{}) SelCase { return SelCase{false, ch} }
func W(ch interface{}) SelCase { return SelCase{true, ch} }

// Select replaces the select statement: it returns the index of a ready case
// (the instrumented code then performs the real, now non-blocking,
// operation), or -1 for the default clause. Which ready case is taken is an
// explorer choice (first ready = default, others cost one deviation).
func Select(hasDefault bool, cases ...SelCase) int {
	s := S
	if s == nil {
		panic("vrt.Select outside a controlled execution")
	}
	vs := make([]reflect.Value, len(cases))
	ps := make([]uintptr, len(cases))
	for i, c := range cases {
		vs[i] = reflect.ValueOf(c.ch)
		ps[i] = chanPtr(c.ch)
	}
	ready := func() []int {
		var r []int
		for i, c := range cases {
			if c.send {
				if s.sendReady(vs[i], ps[i]) {
					r = append(r, i)
				}
			} else if s.recvReady(vs[i], ps[i]) {
				r = append(r, i)
			}
		}
		return r
	}
	// The select statement is evaluated when the thread executes it: a pure
	// scheduling point first.
	s.point(fmt.Sprintf("select(%d)", len(cases)), 0, nil)
	if s.aborting {
		s.unwind(s.cur)
		return -1
	}
	r := ready()
	k := 0
	switch {
	case len(r) > 1:
		// several cases ready at evaluation time: Go chooses uniformly at random
		k = s.choose("select", len(r), true, func() string { return fmt.Sprintf("T%d select ready=%v", s.cur.ID, r) })
	case len(r) == 0 && hasDefault:
		return -1
	case len(r) == 0:
		// The goroutine parks on all its channels. The FIRST operation that
		// makes one of the cases ready completes the select (direct hand-off
		// to the parked goroutine); later operations on other channels
		// cannot change the outcome. The predicate is evaluated after every
		// single step of any thread, so it sees that first operation.
		fired := -1
		caseReady := func(i int) bool {
			if cases[i].send {
				return s.sendReady(vs[i], ps[i])
			}
			return s.recvReady(vs[i], ps[i])
		}
		s.point(fmt.Sprintf("select(%d) parked", len(cases)), 0, func() bool {
			if fired >= 0 && caseReady(fired) {
				return true
			}
			fired = -1
			if rr := ready(); len(rr) > 0 {
				fired = rr[0]
				return true
			}
			return false
		})
		if s.aborting {
			s.unwind(s.cur)
			return -1
		}
		if fired < 0 || !caseReady(fired) {
			panic("vrt: select resumed without a ready case")
		}
		r = []int{fired}
	}
	i := r[k]
	if s.hb != nil {
		if cases[i].send {
			s.hb.chanSend(s.cur, ps[i], vs[i].Cap())
		} else {
			s.hb.chanRecv(s.cur, ps[i], vs[i].Len() == 0)
		}
	}
	return i
}
