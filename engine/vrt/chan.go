package vrt

import (
	"fmt"
	"reflect"
	"unsafe"
)

func chanPtr(ch interface{}) uintptr {
	// a channel value is a pointer to its runtime representation
	type eface struct {
		typ, data unsafe.Pointer
	}
	return uintptr((*eface)(unsafe.Pointer(&ch)).data)
}

// Unbuffered channels made by instrumented code (make(chan T), make(chan T, 0))
// are created with room for one value and registered here: a send is enabled
// only while a receiver is waiting on the channel (parked in a receive or in
// a parked select with that receive case) and the slot is empty, so the value
// is handed to a receiver that is already committed to take it - the
// rendezvous of the real primitive, up to the order of two steps nobody can
// observe. len and cap of such a channel report 0 (ChanLen, ChanCap).
var unbuffered = map[uintptr]bool{}
var unbufferedKeep []interface{}

// MakeChan replaces make(chan T[, n]) in instrumented code.
func MakeChan[C any](n int, mk func(int) C) C {
	if n != 0 {
		return mk(n)
	}
	c := mk(1)
	p := chanPtr(c)
	unbuffered[p] = true
	if s := S; s != nil {
		// made during a controlled execution: forgotten when the next execution starts
		s.keep = append(s.keep, c) // the address must not be reused while it is registered
		unbufferedOfRun = append(unbufferedOfRun, p)
	} else {
		unbufferedKeep = append(unbufferedKeep, c)
	}
	return c
}

var unbufferedOfRun []uintptr

// forgetRunChannels drops the registrations of the previous execution.
func forgetRunChannels() {
	for _, p := range unbufferedOfRun {
		delete(unbuffered, p)
	}
	unbufferedOfRun = unbufferedOfRun[:0]
}

// ChanCap / ChanLen replace cap(ch) / len(ch) on channels.
func ChanCap(ch interface{}) int {
	if unbuffered[chanPtr(ch)] {
		return 0
	}
	return reflect.ValueOf(ch).Cap()
}

func ChanLen(ch interface{}) int {
	if unbuffered[chanPtr(ch)] {
		return 0
	}
	return reflect.ValueOf(ch).Len()
}

func (s *sched) recvReady(v reflect.Value, p uintptr) bool {
	if v.IsNil() {
		return false
	}
	if v.Len() > 0 {
		return true
	}
	if s.closed[p] {
		return true
	}
	// An empty channel: ready only if it is closed. Closed-ness is probed on the real channel (it may
	// have been closed outside this execution - a package-level "always ready" signal, a channel of
	// context.Context): a non-blocking receive on an EMPTY channel returns a valid zero value exactly
	// when the channel is closed, and consumes nothing when it is open.
	x, ok := v.TryRecv()
	if ok {
		panic("vrt: received a value from an empty channel while probing; a sender outside the controlled scheduler is not supported")
	}
	return x.IsValid()
}

func (s *sched) sendReady(v reflect.Value, p uintptr) bool {
	if v.IsNil() {
		return false
	}
	if s.closed[p] {
		return true // will panic, like the real operation
	}
	if unbuffered[p] {
		return s.recvWaiters[p] > 0 && v.Len() == 0
	}
	if v.Cap() == 0 {
		panic("vrt: send on an unbuffered channel that was not made by instrumented code is not supported by the controlled scheduler")
	}
	return v.Len() < v.Cap()
}

// BeforeSend is inserted in front of every send statement: it blocks (as a
// scheduling point) until the real send can proceed without blocking.
func BeforeSend(ch interface{}) {
	s := S
	if s == nil {
		return
	}
	v := reflect.ValueOf(ch)
	p := chanPtr(ch)
	s.point("chan.send", p, func() bool { return s.sendReady(v, p) })
	if s.aborting {
		s.unwind(s.cur)
		return
	}
	if s.hb != nil {
		s.hb.chanSend(s.cur, p, v.Cap())
	}
}

func beforeRecv(ch interface{}) {
	s := S
	if s == nil {
		return
	}
	v := reflect.ValueOf(ch)
	p := chanPtr(ch)
	if unbuffered[p] {
		s.recvWaiters[p]++
		defer func() { s.recvWaiters[p]-- }()
	}
	for {
		s.point("chan.recv", p, func() bool { return s.recvReady(v, p) })
		// between the moment the receive became possible and the moment this thread runs, another
		// receiver may have taken the value: wait again (the real runtime hands a value to the
		// receiver that waited first; here the order among competing receivers is the explorer's)
		if s.aborting || s.recvReady(v, p) {
			break
		}
	}
	if s.hb != nil && !s.aborting {
		s.hb.chanRecv(s.cur, p, v.Len() == 0 && s.closed[p])
	}
}

// Recv replaces the expression <-ch.
func Recv[T any](ch <-chan T) T {
	beforeRecv(ch)
	if s := S; s != nil && s.aborting {
		select {
		case v := <-ch:
			return v
		default:
			var z T
			return z
		}
	}
	return <-ch
}

// Recv2 replaces v, ok := <-ch.
func Recv2[T any](ch <-chan T) (T, bool) {
	beforeRecv(ch)
	if s := S; s != nil && s.aborting {
		select {
		case v, ok := <-ch:
			return v, ok
		default:
			var z T
			return z, false
		}
	}
	v, ok := <-ch
	return v, ok
}

// Close replaces close(ch) (bidirectional and send-only channels alike).
func Close(ch interface{}) {
	s := S
	if s != nil && !s.aborting {
		p := chanPtr(ch)
		s.point("chan.close", p, nil)
		if s.aborting {
			return
		}
		s.closed[p] = true
		// keep the closed channel alive until the execution ends: its address must not be
		// reused by a new channel while the closed flag is recorded for it
		s.keep = append(s.keep, ch)
		if s.hb != nil {
			s.hb.chanClose(s.cur, p)
		}
	}
	reflect.ValueOf(ch).Close()
}

// SelCase is one communication case of a select statement.
type SelCase struct {
	send bool
	ch   interface{}
}

// R is a receive case, W a send case.
func R(ch interface{}) SelCase { return SelCase{false, ch} }
func W(ch interface{}) SelCase { return SelCase{true, ch} }

// Select replaces the select statement: it returns the index of a ready case
// (the instrumented code then performs the real, now non-blocking,
// operation), or -1 for the default clause. Which ready case is taken is an
// explorer choice (first ready = default, others cost one deviation).
func Select(hasDefault bool, cases ...SelCase) int {
	s := S
	if s == nil {
		panic("vrt.Select outside a controlled execution")
	}
	vs := make([]reflect.Value, len(cases))
	ps := make([]uintptr, len(cases))
	for i, c := range cases {
		vs[i] = reflect.ValueOf(c.ch)
		ps[i] = chanPtr(c.ch)
	}
	ready := func() []int {
		var r []int
		for i, c := range cases {
			if c.send {
				if s.sendReady(vs[i], ps[i]) {
					r = append(r, i)
				}
			} else if s.recvReady(vs[i], ps[i]) {
				r = append(r, i)
			}
		}
		return r
	}
	// The select statement is evaluated when the thread executes it: a pure
	// scheduling point first.
	s.point(fmt.Sprintf("select(%d)", len(cases)), 0, nil)
	if s.aborting {
		s.unwind(s.cur)
		return -1
	}
	r := ready()
	k := 0
	switch {
	case len(r) > 1:
		// several cases ready at evaluation time: Go chooses uniformly at random
		k = s.choose("select", len(r), true, func() string { return fmt.Sprintf("T%d select ready=%v", s.cur.ID, r) })
	case len(r) == 0 && hasDefault:
		return -1
	case len(r) == 0:
		// The goroutine parks on all its channels. The FIRST operation that
		// makes one of the cases ready completes the select (direct hand-off
		// to the parked goroutine); later operations on other channels
		// cannot change the outcome. The predicate is evaluated after every
		// single step of any thread, so it sees that first operation.
		for i, c := range cases {
			if !c.send && unbuffered[ps[i]] {
				s.recvWaiters[ps[i]]++
				defer func(p uintptr) { s.recvWaiters[p]-- }(ps[i])
			}
		}
		fired := -1
		caseReady := func(i int) bool {
			if cases[i].send {
				return s.sendReady(vs[i], ps[i])
			}
			return s.recvReady(vs[i], ps[i])
		}
		parkDesc := fmt.Sprintf("select(%d) parked", len(cases))
		recvOnly := true
		for _, c := range cases {
			if c.send {
				recvOnly = false
			}
		}
		if recvOnly {
			parkDesc += "(recv-only)"
		}
		s.point(parkDesc, 0, func() bool {
			if fired >= 0 && caseReady(fired) {
				return true
			}
			fired = -1
			if rr := ready(); len(rr) > 0 {
				fired = rr[0]
				return true
			}
			return false
		})
		if s.aborting {
			s.unwind(s.cur)
			return -1
		}
		if fired < 0 || !caseReady(fired) {
			// another thread used up what made the case ready before this one ran: evaluate the
			// select again from the start
			return Select(hasDefault, cases...)
		}
		r = []int{fired}
	}
	i := r[k]
	if s.hb != nil {
		if cases[i].send {
			s.hb.chanSend(s.cur, ps[i], vs[i].Cap())
		} else {
			s.hb.chanRecv(s.cur, ps[i], vs[i].Len() == 0)
		}
	}
	return i
}
