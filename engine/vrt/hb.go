package vrt

import (
	"fmt"
	"unsafe"
)

// Happens-before race detector (vector clocks). The shims add an edge for
// every synchronisation the Go memory model defines; where the exact edge
// set is awkward to track (channels, cancellation) MORE edges are added, so
// a reported pair of accesses is unordered under the real memory model too.

// SyncVar is the clock attached to a synchronisation object.
type SyncVar struct{ vc []int }

type access struct {
	tid   int
	clock int
	pos   string
}

type shadow struct {
	keep  unsafe.Pointer // keeps the object alive so the address is not reused
	w     access
	hasW  bool
	reads []access
}

type hbState struct {
	mem   map[uintptr]*shadow
	chans map[uintptr]*SyncVar
	atoms map[uintptr]*SyncVar
}

func newHB() *hbState {
	return &hbState{mem: map[uintptr]*shadow{}, chans: map[uintptr]*SyncVar{}, atoms: map[uintptr]*SyncVar{}}
}

func grow(vc []int, n int) []int {
	for len(vc) < n {
		vc = append(vc, 0)
	}
	return vc
}

func join(dst, src []int) []int {
	dst = grow(dst, len(src))
	for i, v := range src {
		if v > dst[i] {
			dst[i] = v
		}
	}
	return dst
}

func (h *hbState) newThread(s *sched, t *Thread) {
	t.vc = grow(nil, t.ID+1)
	t.vc[t.ID] = 1
}

func (h *hbState) fork(parent, child *Thread) {
	child.vc = join(child.vc, parent.vc)
	child.vc = grow(child.vc, child.ID+1)
	child.vc[child.ID] = 1
	parent.vc[parent.ID]++
}

func tick(t *Thread) { t.vc = grow(t.vc, t.ID+1); t.vc[t.ID]++ }

// Acquire: the running thread synchronises with the last Release on sv.
func Acquire(sv *SyncVar) {
	s := S
	if s == nil || s.hb == nil || s.cur == nil {
		return
	}
	s.cur.vc = join(s.cur.vc, sv.vc)
}

// Release: sv takes the running thread's clock.
func Release(sv *SyncVar) {
	s := S
	if s == nil || s.hb == nil || s.cur == nil {
		return
	}
	sv.vc = append(sv.vc[:0], s.cur.vc...)
	tick(s.cur)
}

// ReleaseMerge: sv accumulates the running thread's clock.
func ReleaseMerge(sv *SyncVar) {
	s := S
	if s == nil || s.hb == nil || s.cur == nil {
		return
	}
	sv.vc = join(sv.vc, s.cur.vc)
	tick(s.cur)
}

// AtomicSync orders atomic operations on the same word.
func AtomicSync(addr uintptr) {
	s := S
	if s == nil || s.hb == nil {
		return
	}
	sv := s.hb.atoms[addr]
	if sv == nil {
		sv = &SyncVar{}
		s.hb.atoms[addr] = sv
	}
	Acquire(sv)
	ReleaseMerge(sv)
}

func (h *hbState) chanVar(p uintptr) *SyncVar {
	sv := h.chans[p]
	if sv == nil {
		sv = &SyncVar{}
		h.chans[p] = sv
	}
	return sv
}

// channel operations: one clock per channel, every operation both acquires
// and releases it (a superset of the memory model's edges).
func (h *hbState) chanSend(t *Thread, p uintptr, cap int) {
	sv := h.chanVar(p)
	t.vc = join(t.vc, sv.vc)
	sv.vc = join(sv.vc, t.vc)
	tick(t)
}

func (h *hbState) chanRecv(t *Thread, p uintptr, closedEmpty bool) {
	sv := h.chanVar(p)
	t.vc = join(t.vc, sv.vc)
	sv.vc = join(sv.vc, t.vc)
	tick(t)
	if closedEmpty {
		// the close may have been performed by uninstrumented code (context
		// cancellation): synchronise with everything that happened so far
		for _, o := range S.threads {
			t.vc = join(t.vc, o.vc)
		}
	}
}

func (h *hbState) chanClose(t *Thread, p uintptr) {
	sv := h.chanVar(p)
	sv.vc = join(sv.vc, t.vc)
	tick(t)
}

func ordered(t *Thread, a access) bool {
	if a.tid == t.ID {
		return true
	}
	return a.tid < len(t.vc) && t.vc[a.tid] >= a.clock
}

// Acc records an access of size bytes at p by the running thread. When the
// configuration asks for it, the access is also a scheduling point so that
// the functional consequences of a race are explored.
func Acc(p unsafe.Pointer, size uintptr, write bool, pos string) {
	s := S
	if s == nil || s.hb == nil || s.aborting || s.cur == nil || p == nil {
		return
	}
	t := s.cur
	a := uintptr(p)
	sh := s.hb.mem[a]
	if sh == nil {
		sh = &shadow{keep: p}
		s.hb.mem[a] = sh
	}
	t.vc = grow(t.vc, t.ID+1)
	cur := access{tid: t.ID, clock: t.vc[t.ID], pos: pos}
	report := func(prev access, prevW bool) {
		kind := "read"
		if write {
			kind = "write"
		}
		pk := "read"
		if prevW {
			pk = "write"
		}
		x, y := prev.pos, pos
		key := x + "|" + y
		if y < x {
			key = y + "|" + x
		}
		if !s.raceSeen[key] {
			s.raceSeen[key] = true
			s.races = append(s.races, fmt.Sprintf("%s at %s (T%d) unordered with %s at %s (T%d)", kind, pos, t.ID, pk, prev.pos, prev.tid))
		}
	}
	if sh.hasW && !ordered(t, sh.w) {
		report(sh.w, true)
	}
	if write {
		for _, r := range sh.reads {
			if !ordered(t, r) {
				report(r, false)
			}
		}
		sh.w, sh.hasW = cur, true
		sh.reads = sh.reads[:0]
	} else {
		found := false
		for i, r := range sh.reads {
			if r.tid == t.ID {
				sh.reads[i] = cur
				found = true
			}
		}
		if !found {
			sh.reads = append(sh.reads, cur)
		}
	}
}

// AccPoint is Acc preceded by a scheduling point (used for fields the
// harness declares as interesting for preemption).
func AccPoint(p unsafe.Pointer, size uintptr, write bool, pos string) {
	if S != nil && !S.aborting && S.hb != nil {
		PointOp("acc "+pos, uintptr(p))
	}
	Acc(p, size, write, pos)
}

// AccF is what the instrumenter inserts: the address is computed inside a
// closure so that a nil dereference on the way (the original statement may
// guard against it) is ignored instead of panicking early.
func AccF(addr func() unsafe.Pointer, write bool, pos string) {
	s := S
	if s == nil || s.hb == nil || s.aborting {
		return
	}
	var p unsafe.Pointer
	func() {
		defer func() { recover() }()
		p = addr()
	}()
	if p == nil {
		return
	}
	if accPoints[pos] {
		AccPoint(p, 0, write, pos)
		return
	}
	Acc(p, 0, write, pos)
}

// AccMap records an access to the map object held in a field or variable.
func AccMap(get func() interface{}, write bool, pos string) {
	s := S
	if s == nil || s.hb == nil || s.aborting {
		return
	}
	var m interface{}
	func() {
		defer func() { recover() }()
		m = get()
	}()
	if m == nil {
		return
	}
	p := chanPtr(m) // a map value is a pointer to its header, like a channel
	if p == 0 {
		return
	}
	if accPoints[pos] {
		AccPoint(unsafe.Pointer(p), 0, write, pos+" (map)")
		return
	}
	Acc(unsafe.Pointer(p), 0, write, pos+" (map)")
}

// accPoints are access positions promoted to scheduling points (phase 2 of
// a race exploration: explore the functional consequences of found races).
var accPoints = map[string]bool{}

// PromoteAccess makes the access at pos a scheduling point from now on.
func PromoteAccess(pos string) { accPoints[pos] = true }

// ClearPromoted removes all promoted positions.
func ClearPromoted() { accPoints = map[string]bool{} }
