package vrt

import (
	"fmt"
	"time"
)

// ExploreCfg configures a deviation-bounded exhaustive exploration.
type ExploreCfg struct {
	Base     Config
	Bound    int   // maximal number of deviations from the default choice; <0: unbounded
	MaxExecs int64 // cap (0 = none); hitting it is reported
	Deadline time.Time
	Shard    int
	NShards  int
	// Check is called after every execution with the result; it returns a
	// non-empty signature to record a violation.
	Check func(x *Exec) (sig, detail string)
	// OnViolation receives each violation (first per signature has the shortest choice list in DFS order).
	OnViolation func(sig, detail string, choices []int, x *Exec)
}

// ExploreStats reports what was covered.
type ExploreStats struct {
	Execs      int64
	Steps      int64
	ChoicePts  int64
	MaxDevSeen int
	Capped     string // non-empty: which cap was hit
	Diverged   string
	BoundDone  int
	Violations int64
}

type explorer struct {
	cfg   ExploreCfg
	runFn func(Config) *Exec
	body  func()
	st    ExploreStats
	sub   int // running index of level-1 subtrees, for sharding
	stop  bool
}

// Explore enumerates all executions of body whose choice sequences deviate
// from the default (alternative 0) in at most Bound places.
func Explore(cfg ExploreCfg, body func()) ExploreStats {
	return ExploreFn(cfg, func(c Config) *Exec { return Run(c, body) })
}

// ExploreFn is Explore for harnesses that wrap Run themselves (run must
// execute exactly one controlled execution with the given configuration).
func ExploreFn(cfg ExploreCfg, run func(Config) *Exec) ExploreStats {
	e := &explorer{cfg: cfg, runFn: run}
	if cfg.NShards <= 0 {
		e.cfg.NShards = 1
	}
	// determinism: the root execution twice, with full traces
	base := cfg.Base
	base.TraceOps = true
	x1 := run(base)
	x2 := run(base)
	if x1.Diverged != "" || x2.Diverged != "" {
		e.st.Diverged = x1.Diverged + x2.Diverged
		return e.st
	}
	if d := diffTraces(x1, x2); d != "" {
		e.st.Diverged = "root execution is not deterministic: " + d
		return e.st
	}
	e.explore(nil, 0, 0)
	e.st.BoundDone = cfg.Bound
	return e.st
}

func diffTraces(a, b *Exec) string {
	if len(a.Trace) != len(b.Trace) {
		return fmt.Sprintf("trace lengths %d vs %d", len(a.Trace), len(b.Trace))
	}
	for i := range a.Trace {
		if a.Trace[i] != b.Trace[i] {
			return fmt.Sprintf("step %d: %q vs %q", i, a.Trace[i], b.Trace[i])
		}
	}
	if len(a.Points) != len(b.Points) {
		return fmt.Sprintf("choice points %d vs %d", len(a.Points), len(b.Points))
	}
	if (a.Failure == nil) != (b.Failure == nil) || (a.Failure != nil && a.Failure.String() != b.Failure.String()) {
		return fmt.Sprintf("failures %v vs %v", a.Failure, b.Failure)
	}
	return ""
}

func (e *explorer) explore(prefix []int, dev int, depth int) {
	if e.stop {
		return
	}
	if e.cfg.MaxExecs > 0 && e.st.Execs >= e.cfg.MaxExecs {
		e.st.Capped = fmt.Sprintf("execution cap %d", e.cfg.MaxExecs)
		e.stop = true
		return
	}
	if !e.cfg.Deadline.IsZero() && time.Now().After(e.cfg.Deadline) {
		e.st.Capped = "deadline"
		e.stop = true
		return
	}
	c := e.cfg.Base
	c.Choices = prefix
	x := e.runFn(c)
	if x.Diverged != "" {
		e.st.Diverged = x.Diverged
		e.stop = true
		return
	}
	// the root execution is counted by shard 0 only
	counted := depth > 0 || e.cfg.Shard == 0
	if counted {
		e.st.Execs++
		e.st.Steps += int64(x.Steps)
		e.st.ChoicePts += int64(len(x.Points))
		if dev > e.st.MaxDevSeen {
			e.st.MaxDevSeen = dev
		}
		if e.cfg.Check != nil {
			if sig, det := e.cfg.Check(x); sig != "" {
				e.st.Violations++
				if e.cfg.OnViolation != nil {
					full := make([]int, len(x.Points))
					for i, p := range x.Points {
						full[i] = p.Chosen
					}
					// trim trailing defaults
					n := len(full)
					for n > 0 && full[n-1] == 0 {
						n--
					}
					e.cfg.OnViolation(sig, det, full[:n], x)
				}
			}
		}
	}
	if e.cfg.Bound >= 0 && dev >= e.cfg.Bound {
		return
	}
	for i := len(prefix); i < len(x.Points); i++ {
		p := x.Points[i]
		for alt := 1; alt < p.N; alt++ {
			if depth == 0 {
				e.sub++
				if e.sub%e.cfg.NShards != e.cfg.Shard {
					continue
				}
			}
			np := make([]int, i+1)
			for j := 0; j < i; j++ {
				np[j] = x.Points[j].Chosen
			}
			np[i] = alt
			e.explore(np, dev+1, depth+1)
			if e.stop {
				return
			}
		}
	}
}

// Replay runs one recorded choice sequence twice and reports whether both
// runs agree (determinism of the harness).
func Replay(base Config, choices []int, body func()) (*Exec, string) {
	base.Choices = choices
	base.TraceOps = true
	x1 := Run(base, body)
	x2 := Run(base, body)
	if x1.Diverged != "" {
		return x1, x1.Diverged
	}
	if d := diffTraces(x1, x2); d != "" {
		return x1, "replay is not deterministic: " + d
	}
	return x1, ""
}
