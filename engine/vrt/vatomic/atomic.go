// Package vatomic replaces package sync/atomic in instrumented code: every
// operation is a scheduling point and a happens-before edge on its word.
package vatomic

import (
	"unsafe"

	"github.com/SAP/go-dblib/vrt"
)

func pt(name string, p unsafe.Pointer) {
	vrt.PointOp("atomic."+name, uintptr(p))
	vrt.AtomicSync(uintptr(p))
}

func AddInt32(addr *int32, delta int32) int32 {
	pt("AddInt32", unsafe.Pointer(addr))
	*addr += delta
	return *addr
}
func AddInt64(addr *int64, delta int64) int64 {
	pt("AddInt64", unsafe.Pointer(addr))
	*addr += delta
	return *addr
}
func AddUint32(addr *uint32, delta uint32) uint32 {
	pt("AddUint32", unsafe.Pointer(addr))
	*addr += delta
	return *addr
}
func AddUint64(addr *uint64, delta uint64) uint64 {
	pt("AddUint64", unsafe.Pointer(addr))
	*addr += delta
	return *addr
}
func AddUintptr(addr *uintptr, delta uintptr) uintptr {
	pt("AddUintptr", unsafe.Pointer(addr))
	*addr += delta
	return *addr
}
func LoadInt32(addr *int32) int32           { pt("LoadInt32", unsafe.Pointer(addr)); return *addr }
func LoadInt64(addr *int64) int64           { pt("LoadInt64", unsafe.Pointer(addr)); return *addr }
func LoadUint32(addr *uint32) uint32        { pt("LoadUint32", unsafe.Pointer(addr)); return *addr }
func LoadUint64(addr *uint64) uint64        { pt("LoadUint64", unsafe.Pointer(addr)); return *addr }
func LoadUintptr(addr *uintptr) uintptr     { pt("LoadUintptr", unsafe.Pointer(addr)); return *addr }
func StoreInt32(addr *int32, v int32)       { pt("StoreInt32", unsafe.Pointer(addr)); *addr = v }
func StoreInt64(addr *int64, v int64)       { pt("StoreInt64", unsafe.Pointer(addr)); *addr = v }
func StoreUint32(addr *uint32, v uint32)    { pt("StoreUint32", unsafe.Pointer(addr)); *addr = v }
func StoreUint64(addr *uint64, v uint64)    { pt("StoreUint64", unsafe.Pointer(addr)); *addr = v }
func StoreUintptr(addr *uintptr, v uintptr) { pt("StoreUintptr", unsafe.Pointer(addr)); *addr = v }
func SwapInt32(addr *int32, v int32) int32 {
	pt("SwapInt32", unsafe.Pointer(addr))
	o := *addr
	*addr = v
	return o
}
func SwapInt64(addr *int64, v int64) int64 {
	pt("SwapInt64", unsafe.Pointer(addr))
	o := *addr
	*addr = v
	return o
}
func SwapUint32(addr *uint32, v uint32) uint32 {
	pt("SwapUint32", unsafe.Pointer(addr))
	o := *addr
	*addr = v
	return o
}
func SwapUint64(addr *uint64, v uint64) uint64 {
	pt("SwapUint64", unsafe.Pointer(addr))
	o := *addr
	*addr = v
	return o
}
func CompareAndSwapInt32(addr *int32, old, new int32) bool {
	pt("CASInt32", unsafe.Pointer(addr))
	if *addr == old {
		*addr = new
		return true
	}
	return false
}
func CompareAndSwapInt64(addr *int64, old, new int64) bool {
	pt("CASInt64", unsafe.Pointer(addr))
	if *addr == old {
		*addr = new
		return true
	}
	return false
}
func CompareAndSwapUint32(addr *uint32, old, new uint32) bool {
	pt("CASUint32", unsafe.Pointer(addr))
	if *addr == old {
		*addr = new
		return true
	}
	return false
}
func CompareAndSwapUint64(addr *uint64, old, new uint64) bool {
	pt("CASUint64", unsafe.Pointer(addr))
	if *addr == old {
		*addr = new
		return true
	}
	return false
}

// Typed atomics (Go 1.19).
type Int32 struct{ v int32 }

func (x *Int32) Load() int32                    { return LoadInt32(&x.v) }
func (x *Int32) Store(v int32)                  { StoreInt32(&x.v, v) }
func (x *Int32) Add(d int32) int32              { return AddInt32(&x.v, d) }
func (x *Int32) Swap(v int32) int32             { return SwapInt32(&x.v, v) }
func (x *Int32) CompareAndSwap(o, n int32) bool { return CompareAndSwapInt32(&x.v, o, n) }

type Int64 struct{ v int64 }

func (x *Int64) Load() int64                    { return LoadInt64(&x.v) }
func (x *Int64) Store(v int64)                  { StoreInt64(&x.v, v) }
func (x *Int64) Add(d int64) int64              { return AddInt64(&x.v, d) }
func (x *Int64) Swap(v int64) int64             { return SwapInt64(&x.v, v) }
func (x *Int64) CompareAndSwap(o, n int64) bool { return CompareAndSwapInt64(&x.v, o, n) }

type Uint32 struct{ v uint32 }

func (x *Uint32) Load() uint32                    { return LoadUint32(&x.v) }
func (x *Uint32) Store(v uint32)                  { StoreUint32(&x.v, v) }
func (x *Uint32) Add(d uint32) uint32             { return AddUint32(&x.v, d) }
func (x *Uint32) Swap(v uint32) uint32            { return SwapUint32(&x.v, v) }
func (x *Uint32) CompareAndSwap(o, n uint32) bool { return CompareAndSwapUint32(&x.v, o, n) }

type Uint64 struct{ v uint64 }

func (x *Uint64) Load() uint64                    { return LoadUint64(&x.v) }
func (x *Uint64) Store(v uint64)                  { StoreUint64(&x.v, v) }
func (x *Uint64) Add(d uint64) uint64             { return AddUint64(&x.v, d) }
func (x *Uint64) Swap(v uint64) uint64            { return SwapUint64(&x.v, v) }
func (x *Uint64) CompareAndSwap(o, n uint64) bool { return CompareAndSwapUint64(&x.v, o, n) }

type Bool struct{ v uint32 }

func (x *Bool) Load() bool { return LoadUint32(&x.v) != 0 }
func (x *Bool) Store(v bool) {
	if v {
		StoreUint32(&x.v, 1)
	} else {
		StoreUint32(&x.v, 0)
	}
}
func b2u(v bool) uint32 {
	if v {
		return 1
	}
	return 0
}
func (x *Bool) Swap(v bool) bool              { return SwapUint32(&x.v, b2u(v)) != 0 }
func (x *Bool) CompareAndSwap(o, n bool) bool { return CompareAndSwapUint32(&x.v, b2u(o), b2u(n)) }

// Pointer mirrors atomic.Pointer[T].
type Pointer[T any] struct{ p *T }

func (x *Pointer[T]) Load() *T   { pt("Pointer.Load", unsafe.Pointer(x)); return x.p }
func (x *Pointer[T]) Store(v *T) { pt("Pointer.Store", unsafe.Pointer(x)); x.p = v }
func (x *Pointer[T]) Swap(v *T) *T {
	pt("Pointer.Swap", unsafe.Pointer(x))
	o := x.p
	x.p = v
	return o
}
func (x *Pointer[T]) CompareAndSwap(old, new *T) bool {
	pt("Pointer.CAS", unsafe.Pointer(x))
	if x.p == old {
		x.p = new
		return true
	}
	return false
}

// Value mirrors atomic.Value.
type Value struct{ v interface{} }

func (x *Value) Load() interface{} { pt("Value.Load", unsafe.Pointer(x)); return x.v }
func (x *Value) Store(v interface{}) {
	if v == nil {
		panic("sync/atomic: store of nil value into Value")
	}
	pt("Value.Store", unsafe.Pointer(x))
	x.v = v
}
func (x *Value) Swap(v interface{}) interface{} {
	pt("Value.Swap", unsafe.Pointer(x))
	o := x.v
	x.v = v
	return o
}
func (x *Value) CompareAndSwap(old, new interface{}) bool {
	pt("Value.CAS", unsafe.Pointer(x))
	if x.v == old {
		x.v = new
		return true
	}
	return false
}

// Uintptr mirrors atomic.Uintptr.
type Uintptr struct{ v uint64 }

func (x *Uintptr) Load() uintptr          { return uintptr(LoadUint64(&x.v)) }
func (x *Uintptr) Store(v uintptr)        { StoreUint64(&x.v, uint64(v)) }
func (x *Uintptr) Add(d uintptr) uintptr  { return uintptr(AddUint64(&x.v, uint64(d))) }
func (x *Uintptr) Swap(v uintptr) uintptr { return uintptr(SwapUint64(&x.v, uint64(v))) }
func (x *Uintptr) CompareAndSwap(o, n uintptr) bool {
	return CompareAndSwapUint64(&x.v, uint64(o), uint64(n))
}
