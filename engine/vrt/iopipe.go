package vrt

import (
	"io"
	"unsafe"
)

// IOPipe mirrors io.Pipe: a synchronous in-memory pipe. The real one parks
// its callers on channels inside the standard library, where the scheduler
// cannot see them; this one parks them at scheduling points. Semantics as
// documented for io.Pipe: a Write returns when one or more Reads have
// consumed all of its data or an end was closed; Writes are serialised;
// closing either end wakes everybody.
type ioPipe struct {
	cur        []byte // data offered by the writer in its current rendezvous
	offered    bool
	taken      int // bytes taken by the reader of the current offer, -1 while open
	writing    bool
	done       bool
	rerr, werr error
	hb         SyncVar
}

// IOPipeReader mirrors *io.PipeReader.
type IOPipeReader struct{ p *ioPipe }

// IOPipeWriter mirrors *io.PipeWriter.
type IOPipeWriter struct{ p *ioPipe }

// IOPipe mirrors io.Pipe.
func IOPipe() (*IOPipeReader, *IOPipeWriter) {
	p := &ioPipe{taken: -1}
	return &IOPipeReader{p}, &IOPipeWriter{p}
}

func (p *ioPipe) addr() uintptr { return uintptr(unsafe.Pointer(p)) }

func (p *ioPipe) readCloseError() error {
	if p.rerr == nil && p.werr != nil {
		return p.werr
	}
	return io.ErrClosedPipe
}

func (p *ioPipe) writeCloseError() error {
	if p.werr == nil && p.rerr != nil {
		return p.rerr
	}
	return io.ErrClosedPipe
}

func (r *IOPipeReader) Read(b []byte) (int, error) {
	p := r.p
	PointOp("iopipe.Read", p.addr())
	if p.done {
		Acquire(&p.hb)
		return 0, p.readCloseError()
	}
	Block("iopipe.Read(wait)", p.addr(), func() bool { return (p.offered && p.taken < 0) || p.done })
	Acquire(&p.hb)
	if p.offered && p.taken < 0 {
		n := copy(b, p.cur)
		p.taken = n
		ReleaseMerge(&p.hb)
		return n, nil
	}
	return 0, p.readCloseError()
}

func (r *IOPipeReader) Close() error { return r.CloseWithError(nil) }

func (r *IOPipeReader) CloseWithError(err error) error {
	p := r.p
	PointOp("iopipe.CloseRead", p.addr())
	if err == nil {
		err = io.ErrClosedPipe
	}
	if p.rerr == nil {
		p.rerr = err
	}
	p.done = true
	ReleaseMerge(&p.hb)
	return nil
}

func (w *IOPipeWriter) Write(b []byte) (n int, err error) {
	p := w.p
	PointOp("iopipe.Write", p.addr())
	if p.done {
		Acquire(&p.hb)
		return 0, p.writeCloseError()
	}
	Block("iopipe.Write(serialise)", p.addr(), func() bool { return !p.writing })
	p.writing = true
	defer func() { p.writing = false }()
	for once := true; once || len(b) > 0; once = false {
		if p.done {
			Acquire(&p.hb)
			return n, p.writeCloseError()
		}
		p.cur, p.offered, p.taken = b, true, -1
		ReleaseMerge(&p.hb)
		Block("iopipe.Write(wait)", p.addr(), func() bool { return p.taken >= 0 || p.done })
		Acquire(&p.hb)
		took := p.taken
		p.cur, p.offered, p.taken = nil, false, -1
		if took < 0 {
			return n, p.writeCloseError()
		}
		b = b[took:]
		n += took
	}
	return n, nil
}

func (w *IOPipeWriter) Close() error { return w.CloseWithError(nil) }

func (w *IOPipeWriter) CloseWithError(err error) error {
	p := w.p
	PointOp("iopipe.CloseWrite", p.addr())
	if err == nil {
		err = io.EOF
	}
	if p.werr == nil {
		p.werr = err
	}
	p.done = true
	ReleaseMerge(&p.hb)
	return nil
}
