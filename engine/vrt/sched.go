// Package vrt is the controlled runtime under which instrumented go-dblib
// code is model-checked. Every goroutine of the code under test is a logical
// thread that runs only while it holds the baton; scheduling points sit at
// every shim operation (locks, atomics, channel operations, select, go,
// transport reads/writes, timers, map ranges). An execution is determined
// completely by the list of choices taken at points with more than one
// alternative; explore.go enumerates those lists.
//
// The package is compiled into the go-dblib module as a virtual package via
// `go build -overlay` (import path github.com/SAP/go-dblib/vrt).
package vrt

import (
	"fmt"
	"os"
	"runtime"
	"runtime/debug"
	"strconv"
	"strings"
	"sync"
	"time"
)

// Thread is a logical thread.
type Thread struct {
	ID           int
	Name         string
	wake         chan struct{}
	pred         func() bool // nil: runnable
	desc         string
	obj          uintptr
	done         bool
	started      bool
	idleOK       bool  // blocked in a wait that may legitimately last forever (silent transport)
	waitsForWork bool  // parked in a receive / select of receives / condition wait
	yield        bool  // waiting for "something else to happen"
	yieldAt      int64 // progress counter value when the yield started
	vc           []int // vector clock (hb.go)
	exiting      bool
	exited       chan struct{}
}

// Point is one recorded choice point.
type Point struct {
	N        int    // number of alternatives
	Chosen   int    // alternative taken
	CurFirst bool   // alternative 0 is "continue the running thread"
	Kind     string // "sched" | "select" | "map" | "pool" | "env"
	Desc     string
	Cost     int // deviation cost of the chosen alternative (0 or 1)
}

// Failure describes why an execution ended abnormally.
type Failure struct {
	Kind    string // "deadlock" | "livelock" | "panic" | "race" | "steps"
	Msg     string
	Blocked []string
	Stack   string
}

func (f *Failure) String() string {
	if f == nil {
		return ""
	}
	s := f.Kind + ": " + f.Msg
	if len(f.Blocked) > 0 {
		s += " [" + strings.Join(f.Blocked, "; ") + "]"
	}
	return s
}

// Config of one execution.
type Config struct {
	Choices     []int // prefix of choices to replay; afterwards alternative 0
	MaxSteps    int   // abort (Failure "steps") after that many scheduling steps; 0 = 1e6
	EarlyTimers bool  // a pending timer may fire while threads are runnable (as an alternative)
	Races       bool  // run the happens-before detector
	Preempt     bool  // record scheduling alternatives (false: only select/map/pool/env choices are points)
	TraceOps    bool  // keep the full operation trace (for determinism checks and reports)
	Lenient     bool  // a replayed choice beyond the number of alternatives is reduced modulo it instead of being an error
}

// Exec is the result of one execution.
type Exec struct {
	Points   []Point
	Failure  *Failure
	Steps    int
	Trace    []string
	Now      time.Duration
	Diverged string // non-empty: replay of the prefix failed (harness nondeterminism)
	Races    []string
}

type sched struct {
	cfg         Config
	threads     []*Thread
	cur         *Thread
	points      []Point
	step        int
	progress    int64
	pollQuanta  int // quanta of virtual time granted to polling threads since a non-polling step
	trace       []string
	failure     *Failure
	aborting    bool
	diverged    string
	end         chan struct{}
	ended       bool
	wg          sync.WaitGroup
	now         time.Duration
	timers      []*timer
	closed      map[uintptr]bool
	recvWaiters map[uintptr]int // receivers waiting on logically unbuffered channels
	keep        []interface{}
	races       []string
	raceSeen    map[string]bool
	hb          *hbState
	nextObj     int
	cleanup     []func()
}

// S is the active execution (nil outside Run).
var S *sched

var runMu sync.Mutex

var epoch int64

// Epoch identifies the current controlled execution. Shim objects that live
// in package-level variables use it to drop state left over from an earlier
// execution (every execution starts from the initial state).
func Epoch() int64 { return epoch }

// Active reports whether a controlled execution is running.
func Active() bool { return S != nil && !S.aborting }

// Now returns the virtual time of the active execution.
func Now() time.Duration {
	if S == nil {
		return 0
	}
	return S.now
}

// Run executes body as thread 0 under the scheduler and returns when all
// threads have finished or the execution was aborted.
func Run(cfg Config, body func()) *Exec {
	runMu.Lock()
	defer runMu.Unlock()
	if cfg.MaxSteps == 0 {
		cfg.MaxSteps = 1000000
	}
	epoch++
	forgetRunChannels()
	s := &sched{cfg: cfg, end: make(chan struct{}), closed: map[uintptr]bool{}, recvWaiters: map[uintptr]int{}, raceSeen: map[string]bool{}}
	if cfg.Races {
		s.hb = newHB()
	}
	S = s
	t := s.newThread("main")
	s.cur = t
	s.startThread(t, body)
	t.wake <- struct{}{}
	if !waitWall(s.end, 20*time.Second, 6) {
		// a thread blocked outside the scheduler's control
		buf := make([]byte, 1<<16)
		n := runtime.Stack(buf, true)
		S = nil
		return &Exec{Diverged: "uncontrolled blocking: no scheduling point reached within 120s wall clock\n" + string(buf[:n])}
	}
	// tear down parked threads one at a time (their deferred functions run)
	s.aborting = true
	for i := 0; i < len(s.threads); i++ {
		th := s.threads[i]
		if !th.started {
			continue
		}
		select {
		case <-th.exited:
			continue
		default:
		}
		s.cur = th
		select {
		case th.wake <- struct{}{}:
		default:
		}
		if !waitWall(th.exited, 10*time.Second, 6) {
			S = nil
			buf := make([]byte, 1<<16)
			n := runtime.Stack(buf, true)
			return &Exec{Diverged: fmt.Sprintf("teardown: thread %d (%s) did not exit (blocked at %s)\n%s", th.ID, th.Name, th.desc, buf[:n])}
		}
	}
	for _, f := range s.cleanup {
		f()
	}
	S = nil
	return &Exec{Points: s.points, Failure: s.failure, Steps: s.step, Trace: s.trace, Now: s.now, Diverged: s.diverged, Races: s.races}
}

// waitWall waits for ch in n slices of wall-clock time. A single expired timer
// proves nothing (the whole machine may have been paused - a snapshot, a
// stopped VM - and every pending timer fires at once on resume); only n
// consecutive expirations, each started after the previous one was observed,
// are taken as "stuck".
func waitWall(ch <-chan struct{}, slice time.Duration, n int) bool {
	for i := 0; i < n; i++ {
		tm := time.NewTimer(slice)
		select {
		case <-ch:
			tm.Stop()
			return true
		case <-tm.C:
		}
		select {
		case <-ch:
			return true
		default:
		}
	}
	return false
}

func (s *sched) newThread(name string) *Thread {
	t := &Thread{ID: len(s.threads), Name: name, wake: make(chan struct{}, 1), exited: make(chan struct{})}
	s.threads = append(s.threads, t)
	if s.hb != nil {
		s.hb.newThread(s, t)
	}
	return t
}

// unwind leaves the running goroutine during teardown. Deferred functions
// still run; shim calls made by them return immediately (exiting is set).
func (s *sched) unwind(t *Thread) {
	if t != nil && t.exiting {
		return
	}
	if t != nil {
		t.exiting = true
	}
	runtime.Goexit()
}

func (s *sched) startThread(t *Thread, f func()) {
	t.started = true
	s.wg.Add(1)
	go func() {
		defer close(t.exited)
		defer s.wg.Done()
		<-t.wake
		if s.aborting {
			t.done = true
			return
		}
		s.cur = t
		defer func() {
			r := recover()
			if r != nil && !t.exiting {
				s.fail(&Failure{Kind: "panic", Msg: fmt.Sprintf("thread %d (%s): %v", t.ID, t.Name, r), Stack: string(debug.Stack())})
				t.done = true
				s.finish()
				return
			}
			t.done = true
			if s.aborting {
				if !t.exiting {
					// ended normally while the execution is being aborted by another thread's failure
					s.finish()
				}
				return
			}
			s.progress++
			s.handoff(t)
		}()
		f()
	}()
}

// Go starts f as a new logical thread (replacement for the go statement).
func Go(f func()) {
	GoNamed("", f)
}

// GoNamed is Go with a thread name for reports.
func GoNamed(name string, f func()) {
	s := S
	if s == nil || s.aborting {
		if s == nil {
			go f()
		}
		return
	}
	s.spawn(name, f)
	s.point("go", 0, nil)
}

// spawn creates a thread without a scheduling point of the caller (usable from the scheduler itself,
// e.g. for the function of an AfterFunc timer).
func (s *sched) spawn(name string, f func()) {
	parent := s.cur
	t := s.newThread(name)
	if s.hb != nil {
		s.hb.fork(parent, t)
	}
	s.startThread(t, f)
}

func (s *sched) fail(f *Failure) {
	if s.failure == nil {
		s.failure = f
	}
	s.aborting = true
}

func (s *sched) finish() {
	if !s.ended {
		s.ended = true
		close(s.end)
	}
}

// handoff is called by a thread that is done: pick the next one.
func (s *sched) handoff(from *Thread) {
	next := s.pick(from)
	if next == nil {
		s.finish()
		return
	}
	s.cur = next
	next.wake <- struct{}{}
}

func (t *Thread) enabled(s *sched) bool {
	if t.done || !t.started {
		return false
	}
	if t.yield {
		if s.progress == t.yieldAt {
			return false
		}
	}
	return t.pred == nil || t.pred()
}

// pick decides which thread runs next. from is the thread giving up the
// baton (it may itself be enabled unless it is done).
func (s *sched) pick(from *Thread) *Thread {
	if s.aborting {
		return nil
	}
	for {
		var en []*Thread
		curFirst := false
		if from != nil && from.enabled(s) {
			en = append(en, from)
			curFirst = true
		}
		for _, t := range s.threads {
			if t != from && t.enabled(s) {
				en = append(en, t)
			}
		}
		nThreads := len(en)
		nAlt := nThreads
		if s.cfg.EarlyTimers && nThreads > 0 {
			nAlt += len(s.timers)
		}
		if nThreads == 0 {
			// quiescent. A thread that POLLS (Yield: a read loop spinning on a closed transport, code
			// comparing the clock with a deadline of its own) experiences time passing: while such a
			// thread exists virtual time advances in small quanta, so that a deadline kept in a plain
			// variable expires in order with the registered timers - not only after the next timer,
			// which may be hours away.
			polling := false
			for _, t := range s.threads {
				if t.started && !t.done && t.yield {
					polling = true
				}
			}
			if polling && s.pollQuanta < 6000 {
				const quantum = 100 * time.Millisecond
				if et := s.earliestTimer(); et != nil && et.at <= s.now+quantum {
					s.fireTimer(et)
					continue
				}
				s.now += quantum
				s.progress++
				s.pollQuanta++
				if s.cfg.TraceOps && s.pollQuanta%50 == 1 {
					s.trace = append(s.trace, "polling: virtual time advanced to "+s.now.String())
				}
				continue
			}
			// quiescent: advance virtual time to the next timer
			if len(s.timers) > 0 {
				s.fireTimer(s.earliestTimer())
				continue
			}
			alive := false
			var blocked []string
			yielders := 0
			// Once the main thread has returned the program would simply end: goroutines that wait
			// for work then (parked in a receive, in a select of receives, in a condition wait) are
			// idle workers, not a deadlock. A goroutine stuck in a SEND or on a lock is still reported:
			// it holds something nobody will ever take.
			mainDone := len(s.threads) > 0 && s.threads[0].done
			for _, t := range s.threads {
				if t.started && !t.done && !t.idleOK && !(mainDone && t.waitsForWork) {
					alive = true
					blocked = append(blocked, fmt.Sprintf("T%d(%s) at %s", t.ID, t.Name, t.desc))
					if t.yield {
						yielders++
					}
				}
			}
			if !alive {
				// every remaining thread waits on a silent transport: quiescent end
				s.finish()
				return nil
			}
			kind := "deadlock"
			if yielders == len(blocked) {
				kind = "livelock"
			}
			s.fail(&Failure{Kind: kind, Msg: "no enabled thread and no pending timer", Blocked: blocked})
			s.finish()
			return nil
		}
		s.step++
		if s.step > s.cfg.MaxSteps {
			s.fail(&Failure{Kind: "steps", Msg: fmt.Sprintf("more than %d scheduling steps", s.cfg.MaxSteps)})
			s.finish()
			return nil
		}
		idx := 0
		if nAlt > 1 && s.cfg.Preempt {
			idx = s.choose("sched", nAlt, curFirst, func() string { return descOf(from) })
		}
		if idx >= nThreads {
			// early timer
			s.fireTimer(s.timers[idx-nThreads])
			continue
		}
		t := en[idx]
		if t.yield {
			t.yield = false
		} else {
			s.pollQuanta = 0
		}
		return t
	}
}

func descOf(t *Thread) string {
	if t == nil {
		return ""
	}
	return fmt.Sprintf("T%d %s", t.ID, t.desc)
}

// choose records a choice point with n alternatives and returns the one taken.
func (s *sched) choose(kind string, n int, curFirst bool, desc func() string) int {
	i := len(s.points)
	c := 0
	if i < len(s.cfg.Choices) {
		c = s.cfg.Choices[i]
		if s.cfg.Lenient && c >= 0 {
			c = c % n
		}
		if c >= n || c < 0 {
			s.diverged = fmt.Sprintf("choice %d at point %d (%s) out of range (%d alternatives): the execution does not replay deterministically", c, i, kind, n)
			s.fail(&Failure{Kind: "diverged", Msg: s.diverged})
			c = 0
		}
	}
	cost := 0
	if c != 0 {
		cost = 1
		if kind == "sched" && !curFirst {
			cost = 0 // the running thread blocked or ended: switching is free
		}
	}
	d := ""
	if s.cfg.TraceOps {
		d = desc()
	}
	s.points = append(s.points, Point{N: n, Chosen: c, CurFirst: curFirst, Kind: kind, Desc: d, Cost: cost})
	return c
}

// Choose lets harness/shim code draw an explorer-controlled value in [0,n).
// Alternative 0 is the default; any other costs one deviation.
func Choose(kind string, n int) int {
	s := S
	if s == nil && n > 1 {
		return initChoice(n)
	}
	if s == nil || s.aborting || n <= 1 {
		return 0
	}
	return s.choose(kind, n, true, func() string { return kind })
}

// Choices taken OUTSIDE a controlled execution - package initialisation of the
// code under test (a map ranged over in a package-level initialiser) - come
// from the environment variable VRT_INIT_CHOICES (comma separated, applied
// modulo the number of alternatives, 0 when exhausted or unset), so that a
// harness can start one process per initialisation order.
var (
	initChoices   []int
	initChoicePos int
	initParsed    bool
)

func initChoice(n int) int {
	if !initParsed {
		initParsed = true
		for _, f := range strings.Split(os.Getenv("VRT_INIT_CHOICES"), ",") {
			if v, err := strconv.Atoi(strings.TrimSpace(f)); err == nil && v >= 0 {
				initChoices = append(initChoices, v)
			}
		}
	}
	if initChoicePos >= len(initChoices) {
		return 0
	}
	c := initChoices[initChoicePos] % n
	initChoicePos++
	return c
}

// point is a scheduling point of the running thread: publish the pending
// operation, let the scheduler pick, park until chosen.
func (s *sched) point(desc string, obj uintptr, pred func() bool) {
	if s.aborting {
		s.unwind(s.cur)
		return
	}
	t := s.cur
	t.pred, t.desc, t.obj = pred, desc, obj
	t.waitsForWork = pred != nil && (desc == "chan.recv" || desc == "Cond.Wait" || strings.HasSuffix(desc, "parked(recv-only)"))
	if s.cfg.TraceOps {
		s.trace = append(s.trace, fmt.Sprintf("T%d %s", t.ID, desc))
	}
	next := s.pick(t)
	if next == nil {
		// execution over (deadlock / step limit): park until teardown
		<-t.wake
		s.unwind(t)
		return
	}
	if next != t {
		s.cur = next
		next.wake <- struct{}{}
		<-t.wake
		if s.aborting {
			s.unwind(t)
			return
		}
	}
	t.pred = nil
	s.progress++
}

// pointIdle is point for waits that may last forever without being a deadlock.
func (s *sched) pointIdle(desc string, obj uintptr, pred func() bool) {
	t := s.cur
	t.idleOK = true
	s.point(desc, obj, pred)
	t.idleOK = false
}

// Point is an unconditional scheduling point (used by shims before an
// operation that cannot block).
func PointOp(desc string, obj uintptr) {
	s := S
	if s == nil {
		return
	}
	s.point(desc, obj, nil)
}

// Block is a scheduling point that is enabled only while pred holds.
func Block(desc string, obj uintptr, pred func() bool) {
	s := S
	if s == nil {
		if !pred() {
			panic("vrt: blocking operation outside a controlled execution: " + desc)
		}
		return
	}
	s.point(desc, obj, pred)
}

// Yield tells the scheduler that the running thread is polling: it is
// disabled until some other thread or a timer has made progress.
func Yield(desc string) {
	s := S
	if s == nil {
		return
	}
	if s.aborting {
		s.unwind(s.cur)
		return
	}
	t := s.cur
	t.yield = true
	t.yieldAt = s.progress
	s.point("yield:"+desc, 0, nil)
}

// Settle parks the running thread until every other thread is blocked (or
// done) and no timer... it is implemented as a lowest-priority wait: the
// thread is enabled only when no other thread is.
func Settle() {
	s := S
	if s == nil {
		return
	}
	me := s.cur
	s.point("settle", 0, func() bool {
		for _, t := range s.threads {
			if t != me && t.started && !t.done && !isSettling(t) && t.enabled(s) {
				return false
			}
		}
		return true
	})
}

func isSettling(t *Thread) bool { return t.desc == "settle" }

// IsBlocked reports whether thread id is parked in an operation that cannot
// proceed right now (for harness predicates such as "the server answers once
// the client waits for it"). A finished thread is not blocked.
func IsBlocked(id int) bool {
	s := S
	if s == nil || id < 0 || id >= len(s.threads) {
		return false
	}
	t := s.threads[id]
	if t.done || !t.started || t.pred == nil || isSettling(t) || strings.HasPrefix(t.desc, "harness:") {
		return false
	}
	return !t.pred()
}

// Quiet reports whether every thread other than the ignored ones (pass the
// caller's own id: the predicate is evaluated while another thread holds the
// baton) is parked in an operation that cannot proceed right now.
func Quiet(ignore ...int) bool {
	s := S
	if s == nil {
		return true
	}
next:
	for _, t := range s.threads {
		if t.done || !t.started {
			continue
		}
		for _, id := range ignore {
			if t.ID == id {
				continue next
			}
		}
		if t.pred == nil || t.pred() {
			return false
		}
	}
	return true
}

// Cur returns the id of the running thread.
func Cur() int {
	if S == nil || S.cur == nil {
		return -1
	}
	return S.cur.ID
}

// Fail lets a harness thread abort the execution with a custom failure
// (an oracle violation observed inside the execution).
func Fail(kind, msg string) {
	s := S
	if s == nil {
		panic(kind + ": " + msg)
	}
	// s.cur must be read before finish(): the moment the execution is declared over, the
	// tear-down loop of Run starts to re-point s.cur at the threads it wakes one by one - a
	// finisher that was descheduled right after finish() would otherwise wait on (and steal)
	// another thread's wake-up token, and that thread would never leave
	t := s.cur
	s.fail(&Failure{Kind: kind, Msg: msg})
	s.finish()
	<-t.wake
	s.unwind(t)
}

// Finish ends the execution normally from the running thread: the harness
// has observed everything it needs; threads still parked (a reader waiting
// for more input, a peer) are torn down without being reported as blocked.
func Finish() {
	s := S
	if s == nil || s.aborting {
		return
	}
	t := s.cur // before finish(), see Fail
	s.aborting = true
	s.finish()
	<-t.wake
	s.unwind(t)
}

// OnCleanup registers f to run after the execution has been torn down.
func OnCleanup(f func()) {
	if S != nil {
		S.cleanup = append(S.cleanup, f)
	}
}

// Keep is referenced by instrumented files so that the vrt import is used.
var Keep = 0
