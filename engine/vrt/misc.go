package vrt

import (
	"fmt"
	"io"
	"reflect"
	"sort"
)

// ---- crypto/rand seam: deterministic counter stream, every draw logged ----

type randReader struct{}

// RandDraws is the log of all draws of the current process (reset by ResetRand).
var RandDraws [][]byte
var randCtr uint64

// ResetRand restarts the stream.
func ResetRand() { RandDraws = nil; randCtr = 0 }

func (randReader) Read(p []byte) (int, error) {
	for i := range p {
		// splitmix64 step per byte: deterministic, well mixed, never all-zero runs
		randCtr += 0x9e3779b97f4a7c15
		z := randCtr
		z = (z ^ (z >> 30)) * 0xbf58476d1ce4e5b9
		z = (z ^ (z >> 27)) * 0x94d049bb133111eb
		z ^= z >> 31
		p[i] = byte(z)
	}
	RandDraws = append(RandDraws, append([]byte{}, p...))
	return len(p), nil
}

// RandReader replaces crypto/rand.Reader.
var RandReader io.Reader = randReader{}

// RandRead replaces crypto/rand.Read.
func RandRead(p []byte) (int, error) { return RandReader.Read(p) }

// ---- map iteration seam ----

// MapKeys returns the keys of m in an explorer-chosen order. The default is
// the order of the keys' textual form; every other order is reachable
// through choices (each non-default pick costs one deviation).
func MapKeys(m interface{}) interface{} {
	v := reflect.ValueOf(m)
	keys := v.MapKeys()
	sort.Slice(keys, func(i, j int) bool { return fmt.Sprint(keys[i].Interface()) < fmt.Sprint(keys[j].Interface()) })
	out := reflect.MakeSlice(reflect.SliceOf(v.Type().Key()), 0, len(keys))
	rest := keys
	for len(rest) > 0 {
		k := 0
		if len(rest) > 1 {
			k = Choose("map", len(rest))
		}
		out = reflect.Append(out, rest[k])
		rest = append(append([]reflect.Value{}, rest[:k]...), rest[k+1:]...)
	}
	return out.Interface()
}

// Keys is the typed form used by instrumented range statements.
func Keys[M ~map[K]V, K comparable, V any](m M) []K {
	if m == nil {
		return nil
	}
	return MapKeys(m).([]K)
}

// ---- finalizers ----
//
// runtime.SetFinalizer of instrumented code is replaced by SetFinalizer: the
// finalizer is recorded, never handed to the real collector (whose timing the
// explorer could not own). A harness that drops its last reference to an
// object says so with Unreachable: from then on the finalizer may run at any
// point, as a thread of its own, which is how the garbage collector behaves.

type finalizerKey struct {
	ep  int64
	ptr uintptr
}

var finalizers = map[finalizerKey]reflect.Value{}

// SetFinalizer mirrors runtime.SetFinalizer (finalizer nil clears it).
func SetFinalizer(obj interface{}, finalizer interface{}) {
	v := reflect.ValueOf(obj)
	if v.Kind() != reflect.Ptr {
		panic("vrt.SetFinalizer: first argument is not a pointer")
	}
	k := finalizerKey{Epoch(), v.Pointer()}
	if finalizer == nil {
		delete(finalizers, k)
		return
	}
	keepAlive = append(keepAlive, obj) // the address must not be reused while the entry exists
	finalizers[k] = reflect.ValueOf(finalizer)
}

var keepAlive []interface{}

// Unreachable declares that the harness holds no reference to obj any more:
// if a finalizer is registered it is started as a thread ("finalizer") that
// the explorer schedules like any other. Reports whether there was one.
func Unreachable(obj interface{}) bool {
	v := reflect.ValueOf(obj)
	k := finalizerKey{Epoch(), v.Pointer()}
	fn, ok := finalizers[k]
	if !ok {
		return false
	}
	delete(finalizers, k)
	GoNamed("finalizer", func() { fn.Call([]reflect.Value{v}) })
	return true
}

// GC mirrors runtime.GC for instrumented code: collection is the harness's call (Unreachable).
func GC() {}
