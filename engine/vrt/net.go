package vrt

import (
	"errors"
	"fmt"
	"io"
	"net"
	"time"
)

// Pipe is the in-memory transport handed out by Dial. The client side is a
// net.Conn; the peer side is driven by a harness thread. Every client Read
// and Write is a scheduling point. A Read returns at most the rest of the
// chunk at the head of the queue, so the partition of the byte stream into
// read results is exactly the peer's chunking.
type Pipe struct {
	in      [][]byte // chunks waiting for the client
	inEOF   bool
	inErr   error
	closed  bool
	eofs    int
	writes  [][]byte // log of client writes
	inbox   [][]byte // client PACKETS not yet consumed by the peer (see feed)
	partial []byte   // bytes of a packet the client has not written completely yet
	packets [][]byte // log of complete client packets
	nWrite  int
	failAt  int
	failErr error
	failN   int
	Reads   []int // sizes returned by client reads
	id      uintptr
}

var dialTable = map[string]*Pipe{}

// NewPipe creates a transport and registers it for addr ("host:port").
func NewPipe(addr string) *Pipe {
	p := &Pipe{failAt: -1}
	if S != nil {
		S.nextObj++
		p.id = uintptr(S.nextObj)
		S.cleanup = append(S.cleanup, func() { delete(dialTable, addr) })
	}
	dialTable[addr] = p
	return p
}

// Dial replaces net.Dial.
func Dial(network, addr string) (net.Conn, error) {
	p, ok := dialTable[addr]
	if !ok {
		return nil, fmt.Errorf("vrt: no transport registered for %s", addr)
	}
	return p, nil
}

var errClosed = errors.New("use of closed network connection")

// ErrReset is a reset-style transport error for fault injection.
var ErrReset = errors.New("read: connection reset by peer")

type timeoutErr struct{}

func (timeoutErr) Error() string   { return "i/o timeout" }
func (timeoutErr) Timeout() bool   { return true }
func (timeoutErr) Temporary() bool { return true }

// ErrTimeout is a timeout-style net.Error for fault injection.
var ErrTimeout net.Error = timeoutErr{}

func (p *Pipe) Read(b []byte) (int, error) {
	s := S
	if s == nil {
		panic("vrt: Pipe.Read outside a controlled execution")
	}
	if len(b) == 0 {
		// like a TCP connection: a zero-length read returns at once
		s.point("net.read(0)", p.id, nil)
		if p.closed {
			return 0, errClosed
		}
		return 0, nil
	}
	if p.inEOF && len(p.in) == 0 && !p.closed && p.inErr == nil && p.eofs > 0 {
		// polling an ended stream: wait until something else happens
		Yield("net.read at EOF")
	}
	s.pointIdle("net.read", p.id, func() bool { return len(p.in) > 0 || p.inEOF || p.inErr != nil || p.closed })
	if s.aborting {
		return 0, errClosed
	}
	switch {
	case p.closed:
		return 0, errClosed
	case len(p.in) > 0:
		c := p.in[0]
		n := copy(b, c)
		if n < len(c) {
			p.in[0] = c[n:]
		} else {
			p.in = p.in[1:]
		}
		p.eofs = 0
		p.Reads = append(p.Reads, n)
		return n, nil
	case p.inErr != nil:
		return 0, p.inErr
	default:
		p.eofs++
		return 0, io.EOF
	}
}

func (p *Pipe) Write(b []byte) (int, error) {
	s := S
	if s == nil {
		panic("vrt: Pipe.Write outside a controlled execution")
	}
	s.point("net.write", p.id, nil)
	if s.aborting {
		return 0, errClosed
	}
	if p.closed {
		return 0, errClosed
	}
	i := p.nWrite
	p.nWrite++
	if i == p.failAt {
		n := p.failN
		if n > len(b) {
			n = len(b)
		}
		if n > 0 {
			p.writes = append(p.writes, append([]byte{}, b[:n]...))
			p.feed(b[:n])
		}
		return n, p.failErr
	}
	c := append([]byte{}, b...)
	p.writes = append(p.writes, c)
	p.feed(c)
	return len(b), nil
}

// feed re-chunks what the client writes into protocol packets (8-byte header, total length in
// bytes 2..3, big-endian), which is how a TDS peer reads the stream: the peer side of the transport
// (PeerRecv, Packets) does not depend on how the client spreads its bytes over Write calls.
func (p *Pipe) feed(b []byte) {
	p.partial = append(p.partial, b...)
	for len(p.partial) >= 8 {
		l := int(p.partial[2])<<8 | int(p.partial[3])
		if l < 8 {
			l = 8
		}
		if len(p.partial) < l {
			return
		}
		pk := append([]byte{}, p.partial[:l]...)
		p.partial = p.partial[l:]
		p.inbox = append(p.inbox, pk)
		p.packets = append(p.packets, pk)
	}
}

// Packets returns the log of complete packets the client has written so far; Partial the bytes of
// a packet still incomplete.
func (p *Pipe) Packets() [][]byte { return p.packets }
func (p *Pipe) Partial() []byte   { return p.partial }

func (p *Pipe) Close() error {
	s := S
	if s != nil && !s.aborting {
		s.point("net.close", p.id, nil)
	}
	if p.closed {
		return errClosed
	}
	p.closed = true
	return nil
}

type addr struct{}

func (addr) Network() string { return "vrt" }
func (addr) String() string  { return "vrt" }

func (p *Pipe) LocalAddr() net.Addr                { return addr{} }
func (p *Pipe) RemoteAddr() net.Addr               { return addr{} }
func (p *Pipe) SetDeadline(t time.Time) error      { return nil }
func (p *Pipe) SetReadDeadline(t time.Time) error  { return nil }
func (p *Pipe) SetWriteDeadline(t time.Time) error { return nil }

// ---- peer side ----

// PeerSend queues chunks for the client; each client Read returns at most one chunk.
func (p *Pipe) PeerSend(chunks ...[]byte) {
	if S != nil && !S.aborting {
		S.point("peer.send", p.id, nil)
	}
	for _, c := range chunks {
		if len(c) > 0 {
			p.in = append(p.in, append([]byte{}, c...))
		}
	}
}

// PeerCloseWrite ends the stream: after the queued chunks the client reads EOF.
func (p *Pipe) PeerCloseWrite() {
	if S != nil && !S.aborting {
		S.point("peer.close", p.id, nil)
	}
	p.inEOF = true
}

// PeerFail makes client reads fail with err after the queued chunks.
func (p *Pipe) PeerFail(err error) {
	if S != nil && !S.aborting {
		S.point("peer.fail", p.id, nil)
	}
	p.inErr = err
}

// PeerRecv blocks until the client has written something and returns the
// oldest unconsumed write (nil once the client closed the transport).
func (p *Pipe) PeerRecv() []byte {
	s := S
	s.pointIdle("peer.recv", p.id, func() bool { return len(p.inbox) > 0 || p.closed })
	if s.aborting || len(p.inbox) == 0 {
		return nil
	}
	b := p.inbox[0]
	p.inbox = p.inbox[1:]
	return b
}

// PeerPending returns the number of unconsumed client writes (no scheduling point).
func (p *Pipe) PeerPending() int { return len(p.inbox) }

// Writes returns the log of all client writes so far.
func (p *Pipe) Writes() [][]byte { return p.writes }

// FailWrite makes the j-th client write (0-based) transfer only n bytes and return err.
func (p *Pipe) FailWrite(j, n int, err error) { p.failAt, p.failN, p.failErr = j, n, err }

// IsClosed reports whether the client closed the transport.
func (p *Pipe) IsClosed() bool { return p.closed }

// Unread returns the number of bytes queued for the client but not yet read.
func (p *Pipe) Unread() int {
	n := 0
	for _, c := range p.in {
		n += len(c)
	}
	return n
}
