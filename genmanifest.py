#!/usr/bin/env python3
"""Regenerates MANIFEST.json from manifest_src.json (per-property texts) so that the file always validates."""
import json, sys
src = json.load(open('manifest_src.json'))
props = [json.loads(l) for l in open('properties.jsonl')]
ids = [p['id'] for p in props]
checks = []
na = []
for pid in ids:
    e = src['checks'].get(pid)
    if e is None or e.get('not_applicable'):
        na.append({"property_id": pid, "reason": (e or {}).get('not_applicable', 'check not built yet')})
        continue
    checks.append({
        "property_id": pid,
        "quick_cmd": f"./bin/vcheck {pid} --tier quick",
        "thorough_cmd": f"./bin/vcheck {pid} --tier thorough",
        "evidence_file": f"/verif/evidence/{pid}.json",
        "replay_cmd_template": "./bin/vcheck replay {path}",
        "engine": e.get('engine', 'enum'),
        "level_claimed": {"category": "model_checking", "text": e['text'], "design_ref": e.get('design_ref', 'DESIGN.md §5 ' + pid)},
        "level_note": e['note'],
        "technique": e['technique'],
    })
m = {
    "version": 1,
    "setup_cmd": "./setup.sh",
    "hooks": {
        "guard": "verif",
        "enable": "no hooks are committed to /repo: cmd/vinstr rewrites the packages under test at check time from /repo's working tree (sync, sync/atomic, net.Dial, crypto/rand, context timers, go statements, channel creation and operations, select, range over maps and channels, runtime.SetFinalizer) and the result is supplied with `go build -overlay`; pure-function properties import /repo unmodified",
        "baseline_off_cmd": "cd /repo && GOFLAGS=-mod=mod go test -vet=off -count=1 ./...",
        "source_commits": [],
        "add_only": True
    },
    "engines": src['engines'],
    "checks": checks,
    "notes": src.get('notes', ''),
    "not_applicable": na,
}
json.dump(m, open('MANIFEST.json', 'w'), indent=1)
print("checks:", len(checks), "not_applicable:", len(na))
