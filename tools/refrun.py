#!/usr/bin/env python3
"""False-alarm run: every behaviour-preserving change under /verif/refactors is applied to a scratch
copy of the repository; the existing tests and the checks (from the working copy /var/tmp/verif2,
VERIF_REPO = the scratch copy) must all be clean."""
import json, os, re, shutil, subprocess, sys, time
ENV = dict(os.environ, GOFLAGS='-mod=mod', GOPROXY='off', GOSUMDB='off', GOTOOLCHAIN='local')
X = {'C01': ['C12', 'C15', 'C13'], 'C02': ['C03', 'C14', 'C07'], 'C03': ['C02', 'C11', 'C13'], 'C04': ['C05', 'C06', 'C15'], 'C05': ['C04', 'C16'], 'C06': ['C07', 'C09', 'C10'],
     'C07': ['C06', 'C10', 'C02'], 'C08': ['C09', 'C13', 'C11'], 'C09': ['C08', 'C06'], 'C10': ['C07', 'C02', 'C12'], 'C11': ['C03', 'C02'], 'C12': ['C13', 'C01', 'C14'],
     'C13': ['C12', 'C03', 'C14'], 'C14': ['C02', 'C13', 'C12'], 'C15': ['C01', 'C02', 'C07'], 'C16': ['C04', 'C05'], 'C17': [], 'C18': [], 'C19': [], 'C20': []}
def sh(cmd, cwd, timeout=3600, env=ENV):
    p = subprocess.run(cmd, shell=True, cwd=cwd, env=env, stdout=subprocess.PIPE, stderr=subprocess.STDOUT, text=True, errors='replace', timeout=timeout)
    return p.returncode, p.stdout
only = sys.argv[1:]
for d in sorted(os.listdir('/verif/refactors')):
    if only and d not in only and d.split('-')[0] not in only:
        continue
    pid = d.split('-')[0]
    src = f'/verif/refactors/{d}'
    rp = '/var/tmp/repo_ref'
    shutil.rmtree(rp, ignore_errors=True); os.makedirs(rp)
    sh(f'git -C /repo archive HEAD | tar -x -C {rp}', '/')
    rc, out = sh(f'patch -p1 < {src}/patch.diff', rp)
    meta = {'property': pid, 'applies': rc == 0, 'checks': {}}
    old = {}
    if os.environ.get('REF_MODE') == 'delta' and os.path.exists(f'{src}/meta.json'):
        try: old = json.load(open(f'{src}/meta.json')).get('checks', {})
        except Exception: old = {}
    if rc != 0:
        print(d, 'PATCH DOES NOT APPLY', out[-300:]); json.dump(meta, open(f'{src}/meta.json', 'w'), indent=1); continue
    rc, out = sh('go build ./... && go test -vet=off -count=1 ./...', rp)
    meta['existing_tests_pass_with_patch'] = rc == 0
    line = f'{d} tests={"ok" if rc == 0 else "FAIL"}'
    env = dict(ENV, VERIF_REPO=rp, VERIF_EVIDENCE_DIR='/var/tmp/ev_ref')
    for c in [pid] + X[pid]:
        if old and c != pid and c in old and old[c]['exit'] == 0:
            meta['checks'][c] = old[c]; line += f' {c}=(0)'; continue
        t0 = time.time()
        rc, out = sh(f'./bin/vcheck {c} --tier quick', '/var/tmp/verif2', env=env)
        sigs = re.findall(r'sig=(\S+)', out)
        ent = {'exit': rc, 'violation_lines': out.count('VIOLATION property='), 'sigs': sigs[:8], 'wall_s': round(time.time() - t0, 1)}
        if rc != 0:
            lines = out.splitlines()
            ent['detail'] = [l[:700] for l in lines if l.startswith('VIOLATION') or l.startswith('  ') or 'HARNESS' in l or 'BUILD FAILED' in l or 'error' in l.lower()][:16]
        meta['checks'][c] = ent
        line += f' {c}={rc}'
    meta['alarms'] = [c for c, e in meta['checks'].items() if e['exit'] != 0]
    if os.path.exists(f'{src}/notes.txt'):
        meta['what'] = open(f'{src}/notes.txt').read()[:1200]
    json.dump(meta, open(f'{src}/meta.json', 'w'), indent=1)
    print(line, flush=True)
shutil.rmtree('/var/tmp/repo_ref', ignore_errors=True)
