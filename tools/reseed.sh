#!/bin/bash
cd /verif
declare -A X=( [C01]="C12 C15" [C03]="C02 C11" [C04]="C05 C02" [C05]="C04" [C06]="C09 C11" [C07]="C02 C11" [C08]="C07" [C10]="C08" [C11]="C03" [C12]="C02" [C13]="C03" [C14]="C02" [C15]="C01" [C02]="C03 C15" )
for d in seeded/*/; do
  t=$(basename $d); id=${t%-*}
  out=$(python3 seedtest.py $id /verif/seeded/$t ${X[$id]} 2>&1 | grep -E "^C[0-9]+ exit|does not apply" | sed 's/ sigs.*//' | tr '\n' ';')
  echo "$t :: $out"
done
