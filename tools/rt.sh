#!/bin/bash
# usage: rt.sh <refactor-id> <check>... ; runs current /verif checks against a scratch copy with the refactor applied
export GOFLAGS=-mod=mod GOPROXY=off GOSUMDB=off GOTOOLCHAIN=local
t=$1; shift
rp=/var/tmp/repo_rt_$t
rm -rf $rp; mkdir -p $rp && git -C /repo archive HEAD | tar -x -C $rp && (cd $rp && patch -p1 < /verif/refactors/$t/patch.diff >/dev/null) || { echo "patch failed"; exit 9; }
cd /verif
export VERIF_EVIDENCE_DIR=/var/tmp/ev_rt_$t
for c in "$@"; do echo "== $t $c"; VERIF_REPO=$rp ./bin/vcheck $c 2>&1 | grep -v KNOWN | tail -${TAILN:-5} | cut -c1-${CUTN:-600}; done
rm -rf $rp
