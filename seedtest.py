#!/usr/bin/env python3
"""Confirms a seeded defect and runs the check(s) against it.

usage: seedtest.py <PROPERTY> <worktree seeded dir | /verif/seeded/<id>-<n>> [more property ids to run ...]

Steps (all on /repo, which must be clean; always restored afterwards):
  1. existing test suite with the patch applied          -> must pass
  2. the demonstration with the patch applied            -> must fail
  3. vcheck <PROPERTY> (quick) with the patch applied    -> recorded (exit 1 + VIOLATION = caught)
  4. the demonstration without the patch                 -> must pass
Results go to /verif/seeded/<id>-<n>/meta.json.
"""
import json, os, re, shutil, subprocess, sys, time

ENV = dict(os.environ, GOFLAGS='-mod=mod', GOPROXY='off', GOSUMDB='off', GOTOOLCHAIN='local')
PKGDIR = {'tds': 'tds', 'dsn': 'dsn', 'asetypes': 'asetypes', 'capability': 'capability', 'namepool': 'namepool', 'dblib': '.', 'asetime': 'asetime',
          'tds_test': 'tds', 'dsn_test': 'dsn', 'asetypes_test': 'asetypes', 'capability_test': 'capability', 'namepool_test': 'namepool', 'dblib_test': '.'}

def sh(cmd, cwd='/repo', timeout=1800):
    p = subprocess.run(cmd, shell=True, cwd=cwd, env=ENV, stdout=subprocess.PIPE, stderr=subprocess.STDOUT, text=True, errors='replace', timeout=timeout)
    return p.returncode, p.stdout

def main():
    prop, src = sys.argv[1], sys.argv[2].rstrip('/')
    extra = sys.argv[3:]
    if src.startswith('/verif/seeded/'):
        dst = src
    else:
        n = os.path.basename(src)
        dst = f'/verif/seeded/{prop}-{n}'
        os.makedirs(dst, exist_ok=True)
        for f in os.listdir(src):
            if os.path.isfile(os.path.join(src, f)):
                shutil.copy(os.path.join(src, f), dst)
    rc, out = sh('git status --porcelain --untracked-files=no')
    if out.strip():
        print('/repo is not clean:', out); sys.exit(2)
    patch = os.path.join(dst, 'patch.diff')
    if os.path.exists(os.path.join(dst, 'patch.ported.diff')):  # the original no longer applies after a later fix: commit
        patch = os.path.join(dst, 'patch.ported.diff')
    demo = [f for f in os.listdir(dst) if f.endswith('.go')]
    assert demo, 'no demo'
    demo = demo[0]
    text = open(os.path.join(dst, demo)).read()
    pkg = re.search(r'^package (\w+)', text, re.M).group(1)
    tag = re.search(r'^//go:build (\w+)', text, re.M)
    tests = re.findall(r'^func (Test\w+)\(', text, re.M)
    pdir = PKGDIR.get(pkg)
    meta = {'property': prop, 'patch': os.path.basename(patch), 'demo': demo, 'ran': []}
    if pdir is None:
        print('cannot place demo for package', pkg); sys.exit(2)
    target = os.path.join('/repo', pdir, 'zz_seeded_demo_test.go')
    demo_cmd = f"go test -count=1 {'-tags ' + tag.group(1) if tag else ''} -run '^({'|'.join(tests)})$' ./{pdir}/"
    shutil.rmtree('/var/tmp/verif_evidence_backup', ignore_errors=True)
    shutil.copytree('/verif/evidence', '/var/tmp/verif_evidence_backup')
    try:
        rc, out = sh(f'git apply --check {patch} && git apply {patch}')
        if rc != 0:
            print('patch does not apply:', out); meta['applies'] = False
            json.dump(meta, open(os.path.join(dst, 'meta.json'), 'w'), indent=1); sys.exit(2)
        meta['applies'] = True
        rc, out = sh('go build ./... && go test -vet=off -count=1 ./...')
        meta['existing_tests_pass_with_patch'] = rc == 0
        meta['ran'].append('go build ./... && go test -vet=off -count=1 ./...  (patched) -> exit %d' % rc)
        if rc != 0:
            print(out[-2000:])
        shutil.copy(os.path.join(dst, demo), target)
        rc, out = sh(demo_cmd)
        meta['demo_fails_with_patch'] = rc != 0
        meta['ran'].append(demo_cmd + '  (patched) -> exit %d' % rc)
        os.remove(target)
        caught = {}
        for pid in [prop] + extra:
            t0 = time.time()
            rc, out = sh(f'./bin/vcheck {pid} --tier quick', cwd='/verif', timeout=3600)
            sigs = re.findall(r'sig=(\S+)', out)
            caught[pid] = {'exit': rc, 'violation_lines': out.count('VIOLATION property='), 'sigs': sigs[:8], 'wall_s': round(time.time() - t0, 1)}
            meta['ran'].append(f'./bin/vcheck {pid} --tier quick  (patched) -> exit {rc}')
            print(pid, 'exit', rc, 'sigs', sigs[:5])
            if rc not in (0, 1):
                print(out[-3000:])
        meta['checks'] = caught
        meta['caught_by'] = [p for p, c in caught.items() if c['exit'] == 1]
    finally:
        sh('git checkout -- . ; rm -f ' + target)
        # evidence written while the defect was applied is not evidence about the tree
        shutil.rmtree('/verif/evidence', ignore_errors=True)
        shutil.copytree('/var/tmp/verif_evidence_backup', '/verif/evidence')
        shutil.rmtree('/var/tmp/verif_evidence_backup', ignore_errors=True)
        shutil.rmtree('/verif/replays', ignore_errors=True)
    shutil.copy(os.path.join(dst, demo), target)
    try:
        rc, out = sh(demo_cmd)
        meta['demo_passes_without_patch'] = rc == 0
        meta['ran'].append(demo_cmd + '  (unpatched) -> exit %d' % rc)
        if rc != 0:
            print(out[-1500:])
    finally:
        os.remove(target)
    notes = os.path.join(dst, 'notes.txt')
    if os.path.exists(notes):
        meta['needs'] = open(notes).read()[:1500]
    json.dump(meta, open(os.path.join(dst, 'meta.json'), 'w'), indent=1)
    print(json.dumps({k: meta[k] for k in meta if k not in ('needs', 'ran')}, indent=1))

main()
