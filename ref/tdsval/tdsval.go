// Package tdsval is an independent reference codec for the TDS 5.0 data
// type wire formats, written from the protocol description (it imports
// nothing from go-dblib). Values use plain Go types:
//
//	integers: uint8 (INT1), int16, int32, int64, uint16, uint32, uint64
//	floats:   float32, float64            bit: bool
//	money / decimal / numeric: *big.Int (unscaled count: 1/10000 for money)
//	temporal: time.Time (UTC)             char types: string
//	binary types: []byte                  NULL: nil
package tdsval

import (
	"encoding/binary"
	"fmt"
	"math"
	"math/big"
	"time"
	"unicode/utf16"
)

// TDS data type tokens.
const (
	BIGDATETIMEN = 0xBB
	BIGTIMEN     = 0xBC
	BINARY       = 0x2D
	BIT          = 0x32
	CHAR         = 0x2F
	DATE         = 0x31
	DATEN        = 0x7B
	DATETIME     = 0x3D
	DATETIMEN    = 0x6F
	DECN         = 0x6A
	FLT4         = 0x3B
	FLT8         = 0x3E
	FLTN         = 0x6D
	IMAGE        = 0x22
	INT1         = 0x30
	INT2         = 0x34
	INT4         = 0x38
	INT8         = 0xBF
	INTN         = 0x26
	LONGBINARY   = 0xE1
	LONGCHAR     = 0xAF
	MONEY        = 0x3C
	MONEYN       = 0x6E
	NUMN         = 0x6C
	SHORTDATE    = 0x3A
	SHORTMONEY   = 0x7A
	TEXT         = 0x23
	TIME         = 0x33
	TIMEN        = 0x93
	UINT2        = 0x41
	UINT4        = 0x42
	UINT8        = 0x43
	UINTN        = 0x44
	UNITEXT      = 0xAE
	VARBINARY    = 0x25
	VARCHAR      = 0x27
	XML          = 0xA3
)

// Names for reports.
var Names = map[byte]string{BIGDATETIMEN: "BIGDATETIMEN", BIGTIMEN: "BIGTIMEN", BINARY: "BINARY", BIT: "BIT", CHAR: "CHAR", DATE: "DATE", DATEN: "DATEN",
	DATETIME: "DATETIME", DATETIMEN: "DATETIMEN", DECN: "DECN", FLT4: "FLT4", FLT8: "FLT8", FLTN: "FLTN", IMAGE: "IMAGE", INT1: "INT1", INT2: "INT2", INT4: "INT4",
	INT8: "INT8", INTN: "INTN", LONGBINARY: "LONGBINARY", LONGCHAR: "LONGCHAR", MONEY: "MONEY", MONEYN: "MONEYN", NUMN: "NUMN", SHORTDATE: "SHORTDATE",
	SHORTMONEY: "SHORTMONEY", TEXT: "TEXT", TIME: "TIME", TIMEN: "TIMEN", UINT2: "UINT2", UINT4: "UINT4", UINT8: "UINT8", UINTN: "UINTN", UNITEXT: "UNITEXT",
	VARBINARY: "VARBINARY", VARCHAR: "VARCHAR", XML: "XML"}

// FixedSize returns the wire size of fixed-length types, -1 otherwise.
func FixedSize(dt byte) int {
	switch dt {
	case BIT, INT1:
		return 1
	case INT2, UINT2:
		return 2
	case INT4, UINT4, FLT4, DATE, TIME, SHORTDATE, SHORTMONEY:
		return 4
	case INT8, UINT8, FLT8, DATETIME, MONEY:
		return 8
	}
	return -1
}

// LengthPrefix returns the size of the data length prefix of variable types.
func LengthPrefix(dt byte) int {
	switch dt {
	case IMAGE, TEXT, UNITEXT, XML, LONGBINARY, LONGCHAR:
		return 4
	}
	if FixedSize(dt) != -1 {
		return 0
	}
	return 1
}

// ---- civil calendar (proleptic Gregorian), independent of asetime ----

// DaysFromCivil returns the number of days from 1970-01-01 to y-m-d.
func DaysFromCivil(y, m, d int) int {
	if m <= 2 {
		y--
	}
	era := y
	if y < 0 {
		era = y - 399
	}
	era /= 400
	yoe := y - era*400
	mp := (m + 9) % 12
	doy := (153*mp+2)/5 + d - 1
	doe := yoe*365 + yoe/4 - yoe/100 + doy
	return era*146097 + doe - 719468
}

// CivilFromDays is the inverse of DaysFromCivil.
func CivilFromDays(z int) (y, m, d int) {
	z += 719468
	era := z
	if z < 0 {
		era = z - 146096
	}
	era /= 146097
	doe := z - era*146097
	yoe := (doe - doe/1460 + doe/36524 - doe/146096) / 365
	y = yoe + era*400
	doy := doe - (365*yoe + yoe/4 - yoe/100)
	mp := (5*doy + 2) / 153
	d = doy - (153*mp+2)/5 + 1
	if mp < 10 {
		m = mp + 3
	} else {
		m = mp - 9
	}
	if m <= 2 {
		y++
	}
	return
}

var (
	days1900 = DaysFromCivil(1900, 1, 1)
	days0000 = DaysFromCivil(0, 1, 1)
)

// DaysSince1900 of the calendar day of t.
func DaysSince1900(t time.Time) int {
	y, m, d := t.Date()
	return DaysFromCivil(y, int(m), d) - days1900
}

// DaysSince0000 of the calendar day of t.
func DaysSince0000(t time.Time) int {
	y, m, d := t.Date()
	return DaysFromCivil(y, int(m), d) - days0000
}

func civilTime(days int, nanos int64) time.Time {
	y, m, d := CivilFromDays(days)
	return time.Date(y, time.Month(m), d, 0, 0, 0, 0, time.UTC).Add(time.Duration(nanos))
}

func nanosOfDay(t time.Time) int64 {
	return int64(t.Hour())*3600e9 + int64(t.Minute())*60e9 + int64(t.Second())*1e9 + int64(t.Nanosecond())
}

// TicksOfDay returns the 1/300 s tick nearest to the time of day of t.
func TicksOfDay(t time.Time) int64 {
	n := nanosOfDay(t)
	// round(n * 300 / 1e9)
	return (n*300 + 500000000) / 1000000000
}

// TickNanos returns the time of day of tick k in nanoseconds (rounded).
func TickNanos(k int64) int64 { return (k*1000000000 + 150) / 300 }

// ---- encode ----

func le(n int, v uint64) []byte {
	b := make([]byte, 8)
	binary.LittleEndian.PutUint64(b, v)
	return b[:n]
}

// Encode returns the TDS 5.0 wire bytes of v for data type dt; length is the
// declared size for the nullable families with several widths (INTN, FLTN,
// MONEYN, DATETIMEN) and ignored otherwise. NULL encodes to zero bytes.
func Encode(dt byte, v interface{}, length int) ([]byte, error) {
	if v == nil {
		return []byte{}, nil
	}
	switch dt {
	case INT1:
		return []byte{v.(uint8)}, nil
	case INT2:
		return le(2, uint64(uint16(v.(int16)))), nil
	case INT4:
		return le(4, uint64(uint32(v.(int32)))), nil
	case INT8:
		return le(8, uint64(v.(int64))), nil
	case UINT2:
		return le(2, uint64(v.(uint16))), nil
	case UINT4:
		return le(4, uint64(v.(uint32))), nil
	case UINT8:
		return le(8, v.(uint64)), nil
	case INTN, UINTN:
		switch x := v.(type) {
		case uint8:
			return []byte{x}, nil
		case int16:
			return le(2, uint64(uint16(x))), nil
		case int32:
			return le(4, uint64(uint32(x))), nil
		case int64:
			return le(8, uint64(x)), nil
		case uint16:
			return le(2, uint64(x)), nil
		case uint32:
			return le(4, uint64(x)), nil
		case uint64:
			return le(8, x), nil
		}
	case FLT4:
		return le(4, uint64(math.Float32bits(v.(float32)))), nil
	case FLT8:
		return le(8, math.Float64bits(v.(float64))), nil
	case FLTN:
		switch x := v.(type) {
		case float32:
			return le(4, uint64(math.Float32bits(x))), nil
		case float64:
			return le(8, math.Float64bits(x)), nil
		}
	case BIT:
		if v.(bool) {
			return []byte{1}, nil
		}
		return []byte{0}, nil
	case SHORTMONEY:
		return le(4, uint64(uint32(int32(v.(*big.Int).Int64())))), nil
	case MONEY:
		x := v.(*big.Int).Int64()
		return append(le(4, uint64(uint32(x>>32))), le(4, uint64(uint32(x)))...), nil
	case MONEYN:
		x := v.(*big.Int).Int64()
		if length == 4 {
			return le(4, uint64(uint32(int32(x)))), nil
		}
		return append(le(4, uint64(uint32(x>>32))), le(4, uint64(uint32(x)))...), nil
	case DECN, NUMN:
		x := v.(*big.Int)
		mag := new(big.Int).Abs(x).Bytes()
		out := make([]byte, 1+len(mag))
		if x.Sign() < 0 {
			out[0] = 1
		}
		copy(out[1:], mag)
		return out, nil
	case DATE, DATEN:
		return le(4, uint64(uint32(int32(DaysSince1900(v.(time.Time)))))), nil
	case TIME, TIMEN:
		return le(4, uint64(uint32(TicksOfDay(v.(time.Time))))), nil
	case DATETIME:
		t := v.(time.Time)
		return append(le(4, uint64(uint32(int32(DaysSince1900(t))))), le(4, uint64(uint32(TicksOfDay(t))))...), nil
	case SHORTDATE:
		t := v.(time.Time)
		return append(le(2, uint64(uint16(DaysSince1900(t)))), le(2, uint64(uint16(nanosOfDay(t)/60e9)))...), nil
	case DATETIMEN:
		t := v.(time.Time)
		if length == 4 {
			return append(le(2, uint64(uint16(DaysSince1900(t)))), le(2, uint64(uint16(nanosOfDay(t)/60e9)))...), nil
		}
		return append(le(4, uint64(uint32(int32(DaysSince1900(t))))), le(4, uint64(uint32(TicksOfDay(t))))...), nil
	case BIGDATETIMEN:
		t := v.(time.Time)
		us := uint64(DaysSince0000(t))*86400000000 + uint64(nanosOfDay(t)/1000)
		return le(8, us), nil
	case BIGTIMEN:
		return le(8, uint64(nanosOfDay(v.(time.Time))/1000)), nil
	case CHAR, VARCHAR, LONGCHAR, TEXT:
		return []byte(v.(string)), nil
	case XML:
		switch x := v.(type) {
		case string:
			return []byte(x), nil
		case []byte:
			return append([]byte{}, x...), nil
		}
	case BINARY, VARBINARY, LONGBINARY, IMAGE:
		return append([]byte{}, v.([]byte)...), nil
	case UNITEXT:
		u := utf16.Encode([]rune(v.(string)))
		out := make([]byte, 2*len(u))
		for i, c := range u {
			binary.LittleEndian.PutUint16(out[2*i:], c)
		}
		return out, nil
	}
	return nil, fmt.Errorf("tdsval: cannot encode %T as %s", v, Names[dt])
}

// ---- decode ----

// Decode interprets wire bytes of data type dt. Zero bytes are NULL.
func Decode(dt byte, bs []byte) (interface{}, error) {
	if fs := FixedSize(dt); fs != -1 && len(bs) != fs {
		return nil, fmt.Errorf("tdsval: %s needs %d bytes, got %d", Names[dt], fs, len(bs))
	}
	if len(bs) == 0 {
		return nil, nil
	}
	u := func() uint64 {
		b := make([]byte, 8)
		copy(b, bs)
		return binary.LittleEndian.Uint64(b)
	}
	switch dt {
	case INT1:
		return bs[0], nil
	case INT2:
		return int16(u()), nil
	case INT4:
		return int32(u()), nil
	case INT8:
		return int64(u()), nil
	case UINT2:
		return uint16(u()), nil
	case UINT4:
		return uint32(u()), nil
	case UINT8:
		return u(), nil
	case INTN:
		switch len(bs) {
		case 1:
			return bs[0], nil
		case 2:
			return int16(u()), nil
		case 4:
			return int32(u()), nil
		case 8:
			return int64(u()), nil
		}
	case UINTN:
		switch len(bs) {
		case 1:
			return bs[0], nil
		case 2:
			return uint16(u()), nil
		case 4:
			return uint32(u()), nil
		case 8:
			return u(), nil
		}
	case FLT4:
		return math.Float32frombits(uint32(u())), nil
	case FLT8:
		return math.Float64frombits(u()), nil
	case FLTN:
		switch len(bs) {
		case 4:
			return math.Float32frombits(uint32(u())), nil
		case 8:
			return math.Float64frombits(u()), nil
		}
	case BIT:
		return bs[0] != 0, nil
	case SHORTMONEY:
		return big.NewInt(int64(int32(u()))), nil
	case MONEY:
		hi := int64(int32(binary.LittleEndian.Uint32(bs[:4])))
		lo := int64(binary.LittleEndian.Uint32(bs[4:]))
		return big.NewInt(hi<<32 | lo), nil
	case MONEYN:
		switch len(bs) {
		case 4:
			return big.NewInt(int64(int32(u()))), nil
		case 8:
			hi := int64(int32(binary.LittleEndian.Uint32(bs[:4])))
			lo := int64(binary.LittleEndian.Uint32(bs[4:]))
			return big.NewInt(hi<<32 | lo), nil
		}
	case DECN, NUMN:
		x := new(big.Int).SetBytes(bs[1:])
		if bs[0] == 1 {
			x.Neg(x)
		}
		return x, nil
	case DATE, DATEN:
		if len(bs) == 4 {
			return civilTime(days1900+int(int32(u())), 0), nil
		}
	case TIME, TIMEN:
		if len(bs) == 4 {
			return civilTime(DaysFromCivil(1, 1, 1), TickNanos(int64(uint32(u())))), nil
		}
	case DATETIME, DATETIMEN, SHORTDATE:
		switch len(bs) {
		case 4:
			d := int(binary.LittleEndian.Uint16(bs[:2]))
			m := int64(binary.LittleEndian.Uint16(bs[2:]))
			return civilTime(days1900+d, m*60e9), nil
		case 8:
			d := int(int32(binary.LittleEndian.Uint32(bs[:4])))
			k := int64(binary.LittleEndian.Uint32(bs[4:]))
			return civilTime(days1900+d, TickNanos(k)), nil
		}
	case BIGDATETIMEN:
		if len(bs) == 8 {
			us := u()
			return civilTime(days0000+int(us/86400000000), int64(us%86400000000)*1000), nil
		}
	case BIGTIMEN:
		if len(bs) == 8 {
			return civilTime(DaysFromCivil(1, 1, 1), int64(u())*1000), nil
		}
	case CHAR, VARCHAR, LONGCHAR, TEXT:
		return string(bs), nil
	case BINARY, VARBINARY, LONGBINARY, IMAGE, XML:
		return append([]byte{}, bs...), nil
	case UNITEXT:
		if len(bs)%2 == 0 {
			u16 := make([]uint16, len(bs)/2)
			for i := range u16 {
				u16[i] = binary.LittleEndian.Uint16(bs[2*i:])
			}
			return string(utf16.Decode(u16)), nil
		}
	}
	return nil, fmt.Errorf("tdsval: invalid length %d for %s", len(bs), Names[dt])
}
