// Package loginrec is an independent decoder of the fixed-layout TDS 5.0
// login record, written from the protocol description.
package loginrec

import "fmt"

// Record holds the decoded fields.
type Record struct {
	Hostname, Username, Password, HostProc string
	Int2, Int4, Char, Flt, Date            byte
	UseDB, DmpLd, InterfaceSpare, Type     byte
	BufSize                                [4]byte
	AppName, ServName                      string
	RemotePasswords                        []byte // the 255-byte slot content (declared length)
	TDSVersion                             [4]byte
	ProgName                               string
	ProgVersion                            [4]byte
	NoShort, Flt4, Date4                   byte
	Language                               string
	SetLang                                byte
	SecLogin, SecBulk, HALogin             byte
	CharSet                                string
	SetCharSet                             byte
	PacketSize                             string
	// raw slots, to check that unused bytes are zero
	PasswordSlot []byte
	RemPwSlot    []byte
}

// Size of the record.
const Size = 568

type rd struct {
	b   []byte
	off int
	err error
}

func (r *rd) take(n int) []byte {
	if r.err != nil {
		return make([]byte, n)
	}
	if r.off+n > len(r.b) {
		r.err = fmt.Errorf("login record too short: need %d bytes at offset %d, have %d", n, r.off, len(r.b))
		return make([]byte, n)
	}
	s := r.b[r.off : r.off+n]
	r.off += n
	return s
}

// fixed reads a fixed-width text field followed by its length byte.
func (r *rd) fixed(width int, what string) (string, []byte) {
	slot := r.take(width)
	l := int(r.take(1)[0])
	if l > width {
		if r.err == nil {
			r.err = fmt.Errorf("%s: declared length %d exceeds the field width %d", what, l, width)
		}
		l = width
	}
	for _, c := range slot[l:] {
		if c != 0 && r.err == nil {
			r.err = fmt.Errorf("%s: bytes beyond the declared length %d are not zero: %x", what, l, slot)
		}
	}
	return string(slot[:l]), slot
}

// Decode decodes a login record.
func Decode(b []byte) (*Record, error) {
	r := &rd{b: b}
	rec := &Record{}
	rec.Hostname, _ = r.fixed(30, "hostname")
	rec.Username, _ = r.fixed(30, "username")
	rec.Password, rec.PasswordSlot = r.fixed(30, "password")
	rec.HostProc, _ = r.fixed(30, "hostproc")
	x := r.take(9)
	rec.Int2, rec.Int4, rec.Char, rec.Flt, rec.Date, rec.UseDB, rec.DmpLd, rec.InterfaceSpare, rec.Type = x[0], x[1], x[2], x[3], x[4], x[5], x[6], x[7], x[8]
	copy(rec.BufSize[:], r.take(4))
	r.take(3)
	rec.AppName, _ = r.fixed(30, "appname")
	rec.ServName, _ = r.fixed(30, "servname")
	var rp string
	rp, rec.RemPwSlot = r.fixed(255, "remote passwords")
	rec.RemotePasswords = []byte(rp)
	copy(rec.TDSVersion[:], r.take(4))
	rec.ProgName, _ = r.fixed(10, "progname")
	copy(rec.ProgVersion[:], r.take(4))
	y := r.take(3)
	rec.NoShort, rec.Flt4, rec.Date4 = y[0], y[1], y[2]
	rec.Language, _ = r.fixed(30, "language")
	rec.SetLang = r.take(1)[0]
	r.take(2)
	z := r.take(3)
	rec.SecLogin, rec.SecBulk, rec.HALogin = z[0], z[1], z[2]
	r.take(6)
	r.take(2)
	rec.CharSet, _ = r.fixed(30, "charset")
	rec.SetCharSet = r.take(1)[0]
	rec.PacketSize, _ = r.fixed(6, "packetsize")
	r.take(4)
	if r.err != nil {
		return rec, r.err
	}
	if r.off != Size {
		return rec, fmt.Errorf("decoder consumed %d bytes, record size is %d", r.off, Size)
	}
	return rec, nil
}
