// Package tdspkg is an independent reference codec for TDS 5.0 packages
// (tokens), written from the protocol description; it imports nothing from
// go-dblib. Server-side packages are encoded (to be decoded by the library),
// client-side packages are decoded (from what the library wrote).
package tdspkg

import (
	"encoding/binary"
	"fmt"
	"strings"

	"verif/ref/tdsval"
)

// Tokens.
const (
	TokEED          = 0xE5
	TokError        = 0xAA
	TokLoginAck     = 0xAD
	TokDone         = 0xFD
	TokDoneProc     = 0xFE
	TokDoneInProc   = 0xFF
	TokMsg          = 0x65
	TokParamFmt     = 0xEC
	TokParamFmt2    = 0x20
	TokRowFmt       = 0xEE
	TokRowFmt2      = 0x61
	TokParams       = 0xD7
	TokRow          = 0xD1
	TokCapability   = 0xE2
	TokEnvChange    = 0xE3
	TokLanguage     = 0x21
	TokOrderBy      = 0xA9
	TokOrderBy2     = 0x22
	TokReturnStatus = 0x79
	TokLogout       = 0x71
	TokDynamic      = 0xE7
	TokDynamic2     = 0x62
	TokCurDeclare   = 0x86
	TokCurInfo      = 0x83
	TokCurOpen      = 0x84
	TokCurFetch     = 0x82
	TokCurClose     = 0x80
)

type buf struct{ b []byte }

func (w *buf) u8(v uint8)   { w.b = append(w.b, v) }
func (w *buf) u16(v uint16) { w.b = binary.LittleEndian.AppendUint16(w.b, v) }
func (w *buf) u32(v uint32) { w.b = binary.LittleEndian.AppendUint32(w.b, v) }
func (w *buf) bytes(v []byte) { w.b = append(w.b, v...) }
func (w *buf) str8(s string)  { w.u8(uint8(len(s))); w.b = append(w.b, s...) }
func (w *buf) str16(s string) { w.u16(uint16(len(s))); w.b = append(w.b, s...) }

// Pkg is a reference package: it can encode itself and describe itself.
type Pkg interface {
	Encode() []byte
	// Desc is a canonical, human-readable field dump: the harness derives the
	// same text from the library's decoded package.
	Desc() string
	Kind() string
}

// ---- DONE family

type Done struct {
	Token  byte // TokDone, TokDoneProc, TokDoneInProc
	Status uint16
	Tran   uint16
	Count  int32
}

func (d Done) Encode() []byte {
	w := &buf{}
	w.u8(d.Token)
	w.u16(d.Status)
	w.u16(d.Tran)
	w.u32(uint32(d.Count))
	return w.b
}
func (d Done) Kind() string { return "DONE" }
func (d Done) Desc() string {
	return fmt.Sprintf("DONE status=%#x tran=%d count=%d", d.Status, d.Tran, d.Count)
}

// ---- EED

type EED struct {
	MsgNumber uint32
	State     uint8
	Class     uint8
	SQLState  []byte
	Status    uint8 // 0x2 = informational
	TranState uint16
	Msg       string
	Server    string
	Proc      string
	Line      uint16
}

func (e EED) Encode() []byte {
	body := &buf{}
	body.u32(e.MsgNumber)
	body.u8(e.State)
	body.u8(e.Class)
	body.u8(uint8(len(e.SQLState)))
	body.bytes(e.SQLState)
	body.u8(e.Status)
	body.u16(e.TranState)
	body.str16(e.Msg)
	body.str8(e.Server)
	body.str8(e.Proc)
	body.u16(e.Line)
	w := &buf{}
	w.u8(TokEED)
	w.u16(uint16(len(body.b)))
	w.bytes(body.b)
	return w.b
}
func (e EED) Kind() string { return "EED" }
func (e EED) Desc() string {
	return fmt.Sprintf("EED nr=%d state=%d class=%d sqlstate=%x status=%#x tran=%d msg=%q server=%q proc=%q line=%d",
		e.MsgNumber, e.State, e.Class, e.SQLState, e.Status, e.TranState, strings.TrimSuffix(e.Msg, "\n"), e.Server, e.Proc, e.Line)
}

// ---- ERROR (TDS 4.x style message)

type Error struct {
	Number int32
	State  uint8
	Class  uint8
	Msg    string
	Server string
	Proc   string
	Line   uint16
}

func (e Error) Encode() []byte {
	body := &buf{}
	body.u32(uint32(e.Number))
	body.u8(e.State)
	body.u8(e.Class)
	body.str16(e.Msg)
	body.str8(e.Server)
	body.str8(e.Proc)
	body.u16(e.Line)
	w := &buf{}
	w.u8(TokError)
	w.u16(uint16(len(body.b)))
	w.bytes(body.b)
	return w.b
}
func (e Error) Kind() string { return "ERROR" }
func (e Error) Desc() string {
	return fmt.Sprintf("ERROR nr=%d state=%d class=%d msg=%q server=%q proc=%q line=%d", e.Number, e.State, e.Class, e.Msg, e.Server, e.Proc, e.Line)
}

// ---- ENVCHANGE

type EnvMember struct {
	Type     uint8
	New, Old string
}
type EnvChange struct{ Members []EnvMember }

func (e EnvChange) Encode() []byte {
	body := &buf{}
	for _, m := range e.Members {
		body.u8(m.Type)
		body.str8(m.New)
		body.str8(m.Old)
	}
	w := &buf{}
	w.u8(TokEnvChange)
	w.u16(uint16(len(body.b)))
	w.bytes(body.b)
	return w.b
}
func (e EnvChange) Kind() string { return "ENVCHANGE" }
func (e EnvChange) Desc() string {
	s := "ENVCHANGE"
	for _, m := range e.Members {
		s += fmt.Sprintf(" (%d %q->%q)", m.Type, m.Old, m.New)
	}
	return s
}

// ---- LOGINACK

type LoginAck struct {
	Status      uint8 // 5 succeed, 6 fail, 7 negotiate
	Version     [4]byte
	Program     string
	ProgVersion [4]byte
}

func (l LoginAck) Encode() []byte {
	body := &buf{}
	body.u8(l.Status)
	body.bytes(l.Version[:])
	body.str8(l.Program)
	body.bytes(l.ProgVersion[:])
	w := &buf{}
	w.u8(TokLoginAck)
	w.u16(uint16(len(body.b)))
	w.bytes(body.b)
	return w.b
}
func (l LoginAck) Kind() string { return "LOGINACK" }
func (l LoginAck) Desc() string {
	return fmt.Sprintf("LOGINACK status=%d version=%v program=%q progversion=%v", l.Status, l.Version, l.Program, l.ProgVersion)
}

// ---- MSG

type Msg struct {
	Status uint8
	ID     uint16
}

func (m Msg) Encode() []byte {
	w := &buf{}
	w.u8(TokMsg)
	w.u8(3)
	w.u8(m.Status)
	w.u16(m.ID)
	return w.b
}
func (m Msg) Kind() string { return "MSG" }
func (m Msg) Desc() string { return fmt.Sprintf("MSG status=%d id=%d", m.Status, m.ID) }

// ---- RETURNSTATUS

type ReturnStatus struct{ Value int32 }

func (r ReturnStatus) Encode() []byte {
	w := &buf{}
	w.u8(TokReturnStatus)
	w.u32(uint32(r.Value))
	return w.b
}
func (r ReturnStatus) Kind() string { return "RETURNSTATUS" }
func (r ReturnStatus) Desc() string { return fmt.Sprintf("RETURNSTATUS %d", r.Value) }

// ---- ORDERBY / ORDERBY2

type OrderBy struct {
	Wide bool
	Cols []int
}

func (o OrderBy) Encode() []byte {
	w := &buf{}
	if o.Wide {
		w.u8(TokOrderBy2)
		w.u32(uint32(2 + 2*len(o.Cols)))
		w.u16(uint16(len(o.Cols)))
		for _, c := range o.Cols {
			w.u16(uint16(c))
		}
		return w.b
	}
	w.u8(TokOrderBy)
	w.u16(uint16(len(o.Cols)))
	for _, c := range o.Cols {
		w.u8(uint8(c))
	}
	return w.b
}
func (o OrderBy) Kind() string { return "ORDERBY" }
func (o OrderBy) Desc() string { return fmt.Sprintf("ORDERBY %v", o.Cols) }

// ---- CAPABILITY

type Capability struct {
	Types []byte   // capability type per entry (1 request, 2 response, 3 security)
	Masks [][]byte // value mask per entry
}

func (c Capability) Encode() []byte {
	body := &buf{}
	for i, t := range c.Types {
		body.u8(t)
		body.u8(uint8(len(c.Masks[i])))
		body.bytes(c.Masks[i])
	}
	w := &buf{}
	w.u8(TokCapability)
	w.u16(uint16(len(body.b)))
	w.bytes(body.b)
	return w.b
}
func (c Capability) Kind() string { return "CAPABILITY" }

// Bits returns the set capability numbers of entry i: capability n is bit
// n%8 of byte len-1-n/8.
func (c Capability) Bits(i int) []int {
	var out []int
	m := c.Masks[i]
	for n := 0; n < len(m)*8; n++ {
		if m[len(m)-1-n/8]&(1<<uint(n%8)) != 0 {
			out = append(out, n)
		}
	}
	return out
}
func (c Capability) Desc() string {
	s := "CAPABILITY"
	for i, t := range c.Types {
		s += fmt.Sprintf(" type%d=%v", t, c.Bits(i))
	}
	return s
}

// ---- formats

// Fmt describes one column / parameter format.
type Fmt struct {
	Name      string
	Status    uint32 // 0x8: data carries a status byte; 0x20: nullable
	UserType  int32
	DT        byte
	MaxLen    int
	Precision uint8
	Scale     uint8
	Locale    string
	Object    string // table name of text/image columns
	// wide row formats only
	Label, Catalogue, Schema, Table string
}

func (f Fmt) typeInfo(w *buf) {
	switch tdsval.LengthPrefix(f.DT) {
	case 1:
		w.u8(uint8(f.MaxLen))
	case 4:
		w.u32(uint32(f.MaxLen))
	}
	switch f.DT {
	case tdsval.DECN, tdsval.NUMN:
		w.u8(f.Precision)
		w.u8(f.Scale)
	case tdsval.BIGDATETIMEN, tdsval.BIGTIMEN:
		w.u8(f.Scale)
	case tdsval.TEXT, tdsval.IMAGE, tdsval.UNITEXT, tdsval.XML:
		w.str16(f.Object)
	}
}

func (f Fmt) desc() string {
	// the object name of text/image columns has no accessor in the library: not part of the description
	return fmt.Sprintf("{%q st=%#x ut=%d %s max=%d p=%d s=%d loc=%q lbl=%q cat=%q sch=%q tbl=%q}", f.Name, f.Status, f.UserType, tdsval.Names[f.DT], f.MaxLen, f.Precision, f.Scale, f.Locale, f.Label, f.Catalogue, f.Schema, f.Table)
}

type ParamFmt struct {
	Wide bool
	Fmts []Fmt
}

func (p ParamFmt) Encode() []byte {
	body := &buf{}
	body.u16(uint16(len(p.Fmts)))
	for _, f := range p.Fmts {
		body.str8(f.Name)
		if p.Wide {
			body.u32(f.Status)
		} else {
			body.u8(uint8(f.Status))
		}
		body.u32(uint32(f.UserType))
		body.u8(f.DT)
		f.typeInfo(body)
		body.str8(f.Locale)
	}
	w := &buf{}
	if p.Wide {
		w.u8(TokParamFmt2)
		w.u32(uint32(len(body.b)))
	} else {
		w.u8(TokParamFmt)
		w.u16(uint16(len(body.b)))
	}
	w.bytes(body.b)
	return w.b
}
func (p ParamFmt) Kind() string { return "PARAMFMT" }
func (p ParamFmt) Desc() string {
	s := fmt.Sprintf("PARAMFMT wide=%v", p.Wide)
	for _, f := range p.Fmts {
		f.Label, f.Catalogue, f.Schema, f.Table = "", "", "", ""
		s += " " + f.desc()
	}
	return s
}

type RowFmt struct {
	Wide bool
	Fmts []Fmt
}

func (r RowFmt) Encode() []byte {
	body := &buf{}
	body.u16(uint16(len(r.Fmts)))
	for _, f := range r.Fmts {
		if r.Wide {
			body.str8(f.Label)
			body.str8(f.Catalogue)
			body.str8(f.Schema)
			body.str8(f.Table)
		}
		body.str8(f.Name)
		if r.Wide {
			body.u32(f.Status)
		} else {
			body.u8(uint8(f.Status))
		}
		body.u32(uint32(f.UserType))
		body.u8(f.DT)
		f.typeInfo(body)
		body.str8(f.Locale)
	}
	w := &buf{}
	if r.Wide {
		w.u8(TokRowFmt2)
		w.u32(uint32(len(body.b)))
	} else {
		w.u8(TokRowFmt)
		w.u16(uint16(len(body.b)))
	}
	w.bytes(body.b)
	return w.b
}
func (r RowFmt) Kind() string { return "ROWFMT" }
func (r RowFmt) Desc() string {
	s := fmt.Sprintf("ROWFMT wide=%v", r.Wide)
	for _, f := range r.Fmts {
		if !r.Wide {
			f.Label, f.Catalogue, f.Schema, f.Table = "", "", "", ""
		}
		s += " " + f.desc()
	}
	return s
}

// Data is a PARAMS or ROW package: values in the reference representation
// of tdsval, encoded according to Fmts.
type Data struct {
	Row    bool
	Fmts   []Fmt
	Values []interface{}
	Lens   []int // declared length per value for multi-width types (0 = natural)
}

// EncodeValue encodes one data field (status byte, length prefix, bytes).
func EncodeValue(f Fmt, v interface{}, length int) ([]byte, error) {
	w := &buf{}
	bs, err := tdsval.Encode(f.DT, v, length)
	if err != nil {
		return nil, err
	}
	if f.Status&0x8 != 0 {
		st := uint8(0)
		if v == nil {
			st = 1
		}
		w.u8(st)
	}
	switch f.DT {
	case tdsval.TEXT, tdsval.IMAGE, tdsval.UNITEXT, tdsval.XML:
		// text pointer, timestamp, data length, data
		w.u8(16)
		w.bytes([]byte("0123456789abcdef"))
		w.bytes([]byte{1, 2, 3, 4, 5, 6, 7, 8})
		w.u32(uint32(len(bs)))
		w.bytes(bs)
		return w.b, nil
	}
	switch tdsval.LengthPrefix(f.DT) {
	case 1:
		w.u8(uint8(len(bs)))
	case 4:
		w.u32(uint32(len(bs)))
	}
	w.bytes(bs)
	return w.b, nil
}

func (d Data) Encode() []byte {
	w := &buf{}
	if d.Row {
		w.u8(TokRow)
	} else {
		w.u8(TokParams)
	}
	for i, f := range d.Fmts {
		l := 0
		if i < len(d.Lens) {
			l = d.Lens[i]
		}
		bs, err := EncodeValue(f, d.Values[i], l)
		if err != nil {
			panic(err)
		}
		w.bytes(bs)
	}
	return w.b
}
func (d Data) Kind() string {
	if d.Row {
		return "ROW"
	}
	return "PARAMS"
}
func (d Data) Desc() string {
	s := d.Kind()
	for i, v := range d.Values {
		s += " " + ValueDesc(d.Fmts[i].DT, v)
	}
	return s
}

// ValueDesc renders a reference value canonically.
func ValueDesc(dt byte, v interface{}) string {
	switch x := v.(type) {
	case nil:
		return "NULL"
	case []byte:
		return fmt.Sprintf("x%x", x)
	case string:
		if dt == tdsval.TEXT || dt == tdsval.UNITEXT || dt == tdsval.XML || dt == tdsval.IMAGE {
			// text-pointer columns are delivered as raw bytes by the library
			bs, _ := tdsval.Encode(dt, x, 0)
			return fmt.Sprintf("x%x", bs)
		}
		return fmt.Sprintf("%q", x)
	case interface{ String() string }:
		return x.String()
	}
	return fmt.Sprintf("%v", v)
}

// Raw is an arbitrary byte string used as a package (unknown tokens).
type Raw struct{ B []byte }

func (r Raw) Encode() []byte { return r.B }
func (r Raw) Kind() string   { return "RAW" }
func (r Raw) Desc() string   { return fmt.Sprintf("RAW %x", r.B) }

// Stream concatenates package encodings.
func Stream(pkgs ...Pkg) []byte {
	var out []byte
	for _, p := range pkgs {
		out = append(out, p.Encode()...)
	}
	return out
}
